"""The runs of the C08 check; representation and rendering of patterns is in props/c08.py."""
import ast
import copy
import re

from lib import vlib
from props import ops_common as oc
from props import c08 as P


class Batch:
    GROUP = 40

    def __init__(self):
        self.exprs, self.res = [], None

    def add(self, exprs):
        chunks = [exprs[i:i + self.GROUP] for i in range(0, len(exprs), self.GROUP)]
        start = len(self.exprs)
        self.exprs.extend(oc.coq_list(c) for c in chunks)
        return (start, len(self.exprs), len(exprs))

    def run(self):
        self.res = vlib.coq_eval(P.IMPORTS, P.DEFS, self.exprs, tag="c08", shard=25)

    def get(self, span):
        out = []
        for r in self.res[span[0]:span[1]]:
            out.extend(oc.coq_parse(r))
        assert len(out) == span[2], (len(out), span)
        return out


# ------------------------------------------------------------------ generators

class Names:
    def __init__(self, rng):
        self.rng, self.n = rng, 0
        self.special = ["v-1", "v-2", "w-x", "r-est"]
        rng.shuffle(self.special)

    def fresh(self):
        if self.special and self.rng.random() < 0.15:
            return self.special.pop()
        self.n += 1
        return "n%d" % self.n


def gen_lit(rng, risky=True):
    r = rng.random()
    if r < 0.45:
        return ("lit", "int", rng.choice([0, 1, 2, 3, -1, 7]))
    if r < 0.8:
        pool = ["a", "b", "", "xy"]
        if risky:
            pool += ["None"] if rng.random() < 0.5 else []
        return ("lit", "str", rng.choice(pool))
    if r < 0.88:
        return ("lit", "bytes", rng.choice(["x", "yz"]))
    if r < 0.96:
        return ("lit", "float", rng.choice([0, 1, 2]))
    return ("lit", "complex", rng.choice([0, 1]))


def gen_pattern(rng, depth, names, captures=True):
    r = rng.random()
    if depth <= 0 or r < 0.3:
        k = rng.random()
        if k < 0.35:
            return gen_lit(rng)
        if k < 0.5:
            return ("sym", rng.choice(["None", "True", "False"]))
        if k < 0.6:
            return ("sym", "_")
        if k < 0.8 and captures:
            return ("sym", names.fresh())
        if k < 0.9:
            return ("value", rng.choice([["mm", "K"], ["mm", "S"], ["mm", "k-one"]]))
        return ("kw", rng.choice(["a", "a-b", "k"]))
    if r < 0.5:
        n = rng.randrange(0, 4)
        items = [gen_pattern(rng, depth - 1, names, captures) for _ in range(n)]
        if rng.random() < 0.45:
            star = ("star", "_" if (rng.random() < 0.15 or not captures) else names.fresh())
            items.insert(rng.randrange(0, len(items) + 1), star)
        return ("seq", rng.choice(["list", "tuple"]), items)
    if r < 0.63:
        keys, kvs = set(), []
        for _ in range(rng.randrange(0, 3)):
            k = gen_lit(rng, risky=False)
            if k[1] in ("int", "str") and lit_key(k) not in keys:
                keys.add(lit_key(k))
                kvs.append((k, gen_pattern(rng, depth - 1, names, captures)))
        rest = names.fresh() if (captures and rng.random() < 0.35) else None
        return ("map", kvs, rest)
    if r < 0.83:
        c = rng.random()
        if c < 0.35:
            cls = [rng.choice(["int", "str", "list", "dict", "float", "tuple"])]
            pos = [no_kw(gen_pattern(rng, depth - 1, names, captures))] if rng.random() < 0.5 else []
            return ("class", cls, pos, [])
        if c < 0.85:
            cls = rng.choice([["Pt"], ["mm", "Pt"]])
            npos = rng.randrange(0, 3)
            pos = [no_kw(gen_pattern(rng, depth - 1, names, captures)) for _ in range(npos)]
            kwpool = [k for k in ["p", "q"][npos:]] + ["a-b", "extra"]
            rng.shuffle(kwpool)
            kws = [(k, gen_pattern(rng, depth - 1, names, captures)) for k in kwpool[:rng.randrange(0, 3)]]
            return ("class", cls, pos, kws)
        kws = [("x", gen_pattern(rng, depth - 1, names, captures))] if rng.random() < 0.6 else []
        return ("class", ["Other"], [], kws)
    if r < 0.92:
        alts = [gen_pattern(rng, depth - 1, names, captures=False) for _ in range(rng.randrange(2, 4))]
        alts = [a for a in alts if not P.irrefutable(a)] or [("lit", "int", 9)]
        if len(alts) < 2:
            alts.append(("lit", "int", 8))
        return ("or", alts)
    inner = gen_pattern(rng, depth - 1, names, captures)
    if not captures or inner[0] == "as":
        return inner          # p :as a :as b is not expressible
    return ("as", inner, names.fresh())


def no_kw(p):
    """a Keyword object directly in positional position of a class pattern reads as a keyword argument"""
    if p[0] == "kw" or (p[0] == "as" and p[1][0] == "kw"):
        return ("lit", "int", 4)
    return p


def lit_key(k):
    return (k[1], k[2])


def random_value(rng, hy, depth=2):
    r = rng.random()
    if depth <= 0 or r < 0.55:
        return rng.choice([0, 1, 2, 3, -1, 7, 5, "a", "b", "", "s", "None", b"x", 0.5, 1.5, None, True, False,
                           hy.models.Keyword("a"), hy.models.Keyword("a-b"), complex(0, 1)])
    if r < 0.7:
        return [random_value(rng, hy, depth - 1) for _ in range(rng.randrange(0, 4))]
    if r < 0.8:
        return tuple(random_value(rng, hy, depth - 1) for _ in range(rng.randrange(0, 3)))
    if r < 0.9:
        return {rng.choice([0, 1, "a", "b"]): random_value(rng, hy, depth - 1) for _ in range(rng.randrange(0, 3))}
    if r < 0.97:
        return P.Pt(p=random_value(rng, hy, depth - 1), q=random_value(rng, hy, depth - 1), a_b=random_value(rng, hy, 0))
    return P.Other(x=random_value(rng, hy, 0))


def instantiate(p, rng, hy, env):
    """a subject the pattern is meant to match"""
    t = p[0]
    if t == "lit":
        return P.lit_py(p)
    if t == "sym":
        return {"None": None, "True": True, "False": False}.get(p[1], None) if p[1] in ("None", "True", "False") \
            else random_value(rng, hy, 1)
    if t == "value":
        return {"K": 5, "S": "s", "k-one": 1}[p[1][-1]]
    if t == "kw":
        return hy.models.Keyword(p[1])
    if t == "or":
        return instantiate(rng.choice(p[1]), rng, hy, env)
    if t == "as":
        return instantiate(p[1], rng, hy, env)
    if t == "seq":
        out = []
        for q in p[2]:
            if q[0] == "star":
                out.extend(random_value(rng, hy, 0) for _ in range(rng.randrange(0, 3)))
            else:
                out.append(instantiate(q, rng, hy, env))
        return out if rng.random() < 0.6 else tuple(out)
    if t == "map":
        d = {P.lit_py(k): instantiate(q, rng, hy, env) for k, q in p[1]}
        if rng.random() < 0.5:
            d["zz"] = 1
        return d
    if t == "class":
        name = p[1][-1]
        if name in ("int", "str", "list", "dict", "float", "tuple"):
            if p[2]:
                v = instantiate(p[2][0], rng, hy, env)
                return v
            return {"int": 4, "str": "q", "list": [1], "dict": {"a": 1}, "float": 1.5, "tuple": (1,)}[name]
        if name == "Pt":
            attrs = {"p": random_value(rng, hy, 0), "q": random_value(rng, hy, 0), "a_b": random_value(rng, hy, 0)}
            for nm, q in zip(["p", "q"], p[2]):
                attrs[nm] = instantiate(q, rng, hy, env)
            for k, q in p[3]:
                attrs[P.mangle(k)] = instantiate(q, rng, hy, env)
            return P.Pt(**attrs)
        return P.Other(**{k: instantiate(q, rng, hy, env) for k, q in p[3]})
    raise ValueError(p)


def mutate_value(v, rng, hy):
    r = rng.random()
    if isinstance(v, list) and v and r < 0.5:
        w = list(v)
        i = rng.randrange(len(w))
        if rng.random() < 0.5:
            w[i] = mutate_value(w[i], rng, hy)
        else:
            del w[i]
        return w
    if isinstance(v, tuple) and v and r < 0.5:
        w = mutate_value(list(v), rng, hy)
        return tuple(w) if isinstance(w, list) else w
    if isinstance(v, dict) and v and r < 0.6:
        w = dict(v)
        k = rng.choice(list(w))
        if rng.random() < 0.5:
            w[k] = mutate_value(w[k], rng, hy)
        else:
            del w[k]
        return w
    if isinstance(v, (P.Pt, P.Other)) and r < 0.7:
        w = copy.copy(v)
        w.__dict__ = dict(v.__dict__)
        if w.__dict__:
            k = rng.choice(list(w.__dict__))
            if rng.random() < 0.6:
                w.__dict__[k] = mutate_value(w.__dict__[k], rng, hy)
            else:
                del w.__dict__[k]
        return w
    return random_value(rng, hy, 1)


# ------------------------------------------------------------------ running patterns on the implementation / CPython

def names_dict_hy(names):
    return "{%s}" % " ".join('"%s" %s' % (n, n) for n in names)


def names_dict_py(names):
    return "{%s}" % ", ".join('"%s": %s' % (n, n) for n in names)


def build_hy(hy, env, pat):
    """(fn [s] (match s PAT ["yes" {names}]))  -> ('ok', f) | ('rejected', why)"""
    from hy.errors import HyLanguageError
    names = P.bound_names(pat)
    src = '(fn [s] (match s %s ["yes" %s]))' % (P.pat_hy(pat), names_dict_hy(names))
    try:
        return ("ok", hy.eval(hy.read(src), module=env)), src
    except HyLanguageError as e:
        return ("rejected", "Hy: " + (getattr(e, "msg", None) or str(e))[:80]), src
    except (SyntaxError, ValueError) as e:
        return ("rejected", type(e).__name__ + ": " + str(e)[:80]), src


def build_py(hy, env, pat):
    names = P.bound_names(pat)
    src = "def f(s):\n    match s:\n        case %s:\n            return ['yes', %s]\n    return None\n" % (
        P.pat_python(pat), names_dict_py(names))
    g = dict(env.__dict__)
    try:
        exec(compile(src, "<py>", "exec"), g)
        return ("ok", g["f"]), src
    except (SyntaxError, ValueError) as e:
        return ("rejected", type(e).__name__ + ": " + str(e)[:80]), src


def run_pattern(st, subject, hy):
    if st[0] != "ok":
        return "Rejected"
    try:
        r = st[1](copy.deepcopy(subject))
    except TypeError:
        return "MErr"
    except Exception as e:       # anything else is behaviour to be compared, not a crash of the check
        return ("Raises", type(e).__name__)
    if r is None:
        return "MNo"
    return ("MYes", sorted((k, P.canon_val(v, hy)) for k, v in r[1].items()))


def classify(pat):
    """which of the three recorded defects a pattern exercises (None if none)"""
    found = set()

    def walk(p):
        t = p[0]
        if t == "lit" and p[1] == "str" and p[2] in ("None", "True", "False"):
            found.add("string-literal-None-True-False")
        if t == "seq":
            for q in p[2]:
                if q == ("star", "_"):
                    found.add("star-wildcard-in-sequence")
                walk(q)
        if t == "class":
            for k, q in p[3]:
                if P.mangle(k) != k:
                    found.add("class-pattern-keyword-not-mangled")
                walk(q)
            for q in p[2]:
                walk(q)
        if t == "or":
            for q in p[1]:
                walk(q)
        if t == "map":
            for _, q in p[1]:
                walk(q)
        if t == "as":
            walk(p[1])
    walk(pat)
    return found


def attribute(classes, r_hy):
    """the three constructs recorded here were repaired (7ce654c, 05b9a7b, 24b6ab7): nothing is attributed any more,
    every disagreement is a violation; the class names only label the input distribution"""
    return None


def pattern_phase(chk, hy, env, batch, cases):
    """cases: [(pattern, [subjects])]"""
    exprs = []
    for pat, subjects in cases:
        h = P.pat_coq(pat)
        exprs.append("(compile_checked mg %s)" % h)
    span_c = batch.add(exprs)
    exprs = []
    for pat, subjects in cases:
        h = P.pat_coq(pat)
        exprs.append("(valid false (compile mg %s))" % h)
    span_v = batch.add(exprs)
    exprs = []
    for pat, subjects in cases:
        h = P.pat_coq(pat)
        for v in subjects:
            cv = P.val_coq(v, hy)
            exprs.append("(c_pmatch nm (compile mg %s) %s)" % (h, cv))
            exprs.append("(c_hmatch nm mg %s %s)" % (h, cv))
    span_m = batch.add(exprs)
    yield
    comp, val, mres = batch.get(span_c), batch.get(span_v), batch.get(span_m)
    k = 0
    for idx, (pat, subjects) in enumerate(cases):
        st_hy, src_hy = build_hy(hy, env, pat)
        st_py, src_py = build_py(hy, env, pat)
        # (1) emitted pattern AST
        from hy.compiler import hy_compile
        from hy.errors import HyLanguageError
        try:
            tree = hy_compile(hy.read_many("(match s %s 1)" % P.pat_hy(pat)), env, import_stdlib=False)
            m = next(n for n in ast.walk(tree) if isinstance(n, ast.Match))
            real_ast = P.canon_ppat(m.cases[0].pattern)
        except HyLanguageError as e:
            real_ast = ("syntax", str(e)[:80])
        chk.count("pattern-ast")
        model_ast = ("syntax",) if comp[idx] == "None" else comp[idx][1]
        if model_ast != (real_ast[:1] if real_ast[0] == "syntax" else real_ast):
            chk.disagree("Pattern.compile_checked vs hy_compile (ast.pattern / HySyntaxError)", P.pat_hy(pat),
                         repr(comp[idx]), repr(real_ast))
        model_valid = val[idx] == "true"
        classes = classify(pat)
        kinds = "+".join(sorted(classes)) or "plain"
        for v in subjects:
            m_p, m_h = P.canon_mres(mres[k]), P.canon_mres(mres[k + 1])
            k += 2
            if not model_valid:
                m_p = "Rejected"
            r_hy = run_pattern(st_hy, v, hy)
            r_py = run_pattern(st_py, v, hy)
            desc = {"pattern": P.pat_hy(pat), "python_pattern": P.pat_python(pat), "subject": repr(P.canon_val(v, hy))}
            chk.count("pattern:" + (r_py if isinstance(r_py, str) else r_py[0]))
            chk.count("pattern-kind:" + pat[0])
            chk.case(("pat", P.pat_hy(pat), desc["subject"]), nontrivial=pat[0] not in ("lit", "sym"),
                     sample=dict(desc, result=repr(r_hy)) if chk.evaluations % 701 == 5 else None)
            if m_p != r_hy:
                chk.disagree("PyMatch.pmatch (Pattern.compile p) vs the Hy match on CPython", desc, repr(m_p), repr(r_hy))
            if m_h != r_py and r_py != "Rejected":
                chk.disagree("Pattern.hmatch (reference) vs the rendered Python pattern on CPython", desc, repr(m_h), repr(r_py))
            if r_hy != r_py:
                cls = attribute(classes, r_hy)
                if cls:
                    # a pattern that contains one of the recorded constructs is judged as that construct only
                    desc["class"] = cls
                chk.fail("pattern", desc, repr(r_hy), repr(r_py),
                         "hy: %s   python: %s" % (src_hy, src_py.replace("\n", "\\n")))


# ------------------------------------------------------------------ the user errors of compile_pattern

def rejected_patterns(rng, n):
    """patterns containing `p :as _`, an or-pattern with < 2 alternatives or a value pattern with < 2 symbols,
    at top level and inside every kind of compound pattern"""
    lit = lambda k: ("lit", "int", k)

    def atom():
        r = rng.randrange(7)
        inner = rng.choice([lit(1), ("sym", "n9"), ("seq", "list", [lit(1), ("sym", "n8")]), ("sym", "None"),
                            ("value", ["mm", "K"]), ("kw", "a")])
        return [("or", []), ("or", [inner]), ("value", []), ("value", [rng.choice(["y", "mm", "a-b"])]),
                ("as", inner, "_"), ("as", ("or", [lit(1), lit(2)]), "_"), ("as", inner, "\uff3f")][r]

    def wrap(x, depth):
        if depth == 0:
            return x
        r = rng.randrange(7)
        if r == 0:
            items = [lit(5), x] if rng.random() < 0.5 else [x, ("star", "r9")]
            w = ("seq", rng.choice(["list", "tuple"]), items)
        elif r == 1:
            w = ("map", [(lit(1), x)], rng.choice([None, "m9"]))
        elif r == 2:
            w = ("class", ["Pt"], [x], [])
        elif r == 3:
            w = ("class", rng.choice([["Pt"], ["mm", "Pt"]]), [], [("p", x)])
        elif r == 4:
            w = ("or", [lit(7), x] if rng.random() < 0.5 else [x, lit(7)])
        elif r == 5 and x[0] != "as":
            w = ("as", x, "w9")
        else:
            w = ("seq", "list", [x])
        return wrap(w, depth - 1)
    fixed = [("or", []), ("or", [lit(1)]), ("value", ["y"]), ("value", []), ("as", lit(1), "_"), ("as", ("sym", "x"), "_"), ("as", lit(1), "\uff3f"),
             ("seq", "list", [("as", ("sym", "x"), "\uff3f")]),
             ("seq", "list", [("or", [lit(2)]), lit(3)])]
    out = list(fixed)
    while len(out) < n:
        out.append(wrap(atom(), rng.choice([0, 1, 1, 2, 3])))
    return out


def rejected_phase(chk, hy, env, batch, n):
    """each must be a HySyntaxError raised by Hy itself -- not the ValueError/SyntaxError with which compile()
    used to reject the node Hy emitted -- and the model's compile_pattern must reject it too"""
    from hy.compiler import hy_compile
    from hy.errors import HySyntaxError
    pats = rejected_patterns(chk.rng, n)
    span = batch.add(["(compile_checked mg %s)" % P.pat_coq(p) for p in pats])
    yield
    for pat, model in zip(pats, batch.get(span)):
        src = "(match s %s 1)" % P.pat_hy(pat)
        try:
            hy_compile(hy.read_many(src), env, import_stdlib=False)
            got = "compiles"
        except HySyntaxError:
            got = "HySyntaxError"
        except Exception as e:
            got = type(e).__name__
        if got == "compiles":
            try:
                hy.eval(hy.read("(fn [s] %s)" % src), module=env)
                got = "compiles and Python accepts the node"
            except Exception as e:
                got = "compiles, then %s from compile()" % type(e).__name__
        chk.count("rejected-pattern:" + pat[0])
        chk.case(("rej", P.pat_hy(pat)), nontrivial=True,
                 sample={"form": src, "result": got} if chk.evaluations % 97 == 1 else None)
        if model != "None":
            chk.disagree("Pattern.compile_checked vs hy_compile (must be a syntax error)", src, repr(model), got)
        if got != "HySyntaxError":
            chk.fail("pattern-must-be-syntax-error", {"form": src}, got, "HySyntaxError",
                     "hy.eval(hy.read(%r))" % ("(fn [s] %s)" % src))


GUARDS = [
    # (hy source template over a name list, python source template, compiles to statements?)
    ("True", "True", False), ("False", "False", False),
    # literal guards, falsy ones included: their Hy models are falsy objects (fb0bfe7)
    ("0", "0", False), ('""', '""', False), ("[]", "[]", False), ("{{}}", "{{}}", False), ("0.0", "0.0", False),
    ("None", "None", False), ("1", "1", False), ('"g"', '"g"', False), ("[0]", "[0]", False), ("#()", "()", False),
    ("(isinstance {0} int)", "isinstance({0}, int)", False),
    ("(= {0} 1)", "{0} == 1", False),
    ("(do (setv g-tmp {0}) (= g-tmp 1))", "{0} == 1", True),
    ("(do (setv g-tmp 0) (isinstance {0} #(int str)))", "isinstance({0}, (int, str))", True),
    ("(try (> {0} 0) (except [TypeError] False))", "_gt0({0})", True),
    ("(if (isinstance {0} list) (do (setv g-n (len {0})) (> g-n 1)) False)", "(isinstance({0}, list) and len({0}) > 1)", True),
]


def match_phase(chk, hy, env, n_forms, depth):
    """whole match forms: the first case whose pattern matches and whose guard holds; None otherwise"""
    from hy.errors import HyLanguageError
    rng = chk.rng
    for _ in range(n_forms):
        ncases = rng.randrange(1, 4)
        names = Names(rng)
        cases = []
        for ci in range(ncases):
            pat = gen_pattern(rng, depth, names)
            if P.irrefutable(pat) and ci != ncases - 1:
                pat = ("seq", "list", [pat])
            bn = P.bound_names(pat)
            guard = None
            if rng.random() < 0.5:
                g = rng.choice(GUARDS)
                arg = bn[0] if bn else "s"
                guard = (g[0].format(unmangle(arg)), g[1].format(arg), g[2])
            cases.append((pat, guard, bn))
        hy_cases, py_cases = [], []
        for i, (pat, guard, bn) in enumerate(cases):
            body_hy = "[%d %s]" % (i, " ".join(unmangle(n) for n in bn))
            body_py = "[%s]" % ", ".join([str(i)] + bn)
            bstyle = rng.random()
            if bstyle < 0.3:
                # the result form is an and/or (possibly ending a do) whose FIRST operand compiles to statements
                # (if with a do branch / try): the form's value is the and/or's, not the first operand's
                second_hy = "[%d %s]" % (i + 100, " ".join(unmangle(n) for n in bn))
                second_py = "[%s]" % ", ".join([str(i + 100)] + bn)
                k = rng.randrange(6)
                first_hy = ["(if True (do (setv body-tmp 1) %s) 0)", "(try (do (setv body-tmp 2) %s) (except [ValueError] 0))",
                            "(if False 0 (do (setv body-tmp 3) %s))"][k % 3] % (body_hy if k < 3 else "[]")
                if k < 3:      # and: truthy first operand -> the second operand
                    body_hy, body_py = "(and %s %s)" % (first_hy, second_hy), second_py
                else:          # or: falsy first operand -> the second operand
                    body_hy, body_py = "(or %s %s)" % (first_hy, second_hy), second_py
                if rng.random() < 0.4:
                    body_hy = "(do (setv body-tmp 0) %s)" % body_hy
                chk.count("match-body:and-or-with-statement-operand")
            hy_cases.append("%s%s %s" % (P.pat_hy(pat), (" :if " + guard[0]) if guard else "", body_hy))
            py_cases.append("        case %s%s:\n            result = %s" % (
                P.pat_python(pat), (" if " + guard[1]) if guard else "", body_py))
        hy_src = "(fn [s] (match s %s))" % " ".join(hy_cases)
        style = rng.random()
        if style < 0.2:      # the assignment target is the subject variable (7b4f7e5)
            hy_src = "(fn [s] (setv s (match s %s)) s)" % " ".join(hy_cases)
        elif style < 0.3:
            hy_src = "(fn [s] (setx s (match s %s)))" % " ".join(hy_cases)
        elif style < 0.4:
            hy_src = "(fn [s0] (let [s s0] (setv s (match s %s)) s))" % " ".join(hy_cases)
        chk.count("match-form:" + ("plain" if style >= 0.4 else "assigned-to-subject-variable"))
        py_src = ("def f(s):\n    result = None\n    match s:\n%s\n    return result\n" % "\n".join(py_cases))
        try:
            hf = ("ok", hy.eval(hy.read(hy_src), module=env))
        except HyLanguageError as e:
            hf = ("rejected", "Hy: " + str(getattr(e, "msg", e))[:80])
        except (SyntaxError, ValueError) as e:
            hf = ("rejected", type(e).__name__)
        g = dict(env.__dict__)
        g["_gt0"] = _gt0
        try:
            exec(compile(py_src, "<py>", "exec"), g)
            pf = ("ok", g["f"])
        except (SyntaxError, ValueError) as e:
            pf = ("rejected", type(e).__name__)
        subjects = []
        for pat, _, _ in cases:
            v = instantiate(pat, rng, hy, env)
            subjects.append(v)
            subjects.append(mutate_value(v, rng, hy))
        subjects.append(random_value(rng, hy))
        for v in subjects:
            r_hy, r_py = run_match(hf, v, hy), run_match(pf, v, hy)
            chk.count("match:" + ("none" if r_py == ("value", "None") else r_py[0]))
            chk.count("match:guards-with-statements" if any(gd and gd[2] for _, gd, _ in cases) else "match:plain-guards")
            chk.case(("match", hy_src, repr(P.canon_val(v, hy))), nontrivial=True,
                     sample={"form": hy_src, "subject": repr(P.canon_val(v, hy)), "result": repr(r_hy)}
                     if chk.evaluations % 577 == 3 else None)
            if r_hy != r_py:
                chk.fail("match", {"form": hy_src, "python": py_src, "subject": repr(P.canon_val(v, hy))},
                         repr(r_hy), repr(r_py), "call both functions on the subject")


def _gt0(x):
    try:
        return x > 0
    except TypeError:
        return False


def unmangle(n):
    for k, v in P.MANGLE.items():
        if v == n:
            return k
    return n


def run_match(st, v, hy):
    if st[0] != "ok":
        return ("rejected",)
    try:
        r = st[1](copy.deepcopy(v))
    except Exception as e:
        return ("raises", type(e).__name__)
    return ("value", repr(P.canon_val(r, hy)) if r is not None else "None")


def structure_phase(chk, hy, env, batch, n_forms):
    """compile_match_expression's statement skeleton: result preset to None, lifted guard defs in case order
    before the match, each case calling its own function"""
    from hy.compiler import hy_compile
    rng = chk.rng
    forms = []
    for _ in range(n_forms):
        ncases = rng.randrange(0, 5)
        gs = [rng.choice([None, "expr", "stmts", "lit"]) for _ in range(ncases)]
        forms.append(gs)
    exprs = []
    for gs in forms:
        cs = []
        for i, g in enumerate(gs):
            gd = "None" if g is None else "(Some {| g_id := %d; g_stmts := %s |})" % (i, "true" if g == "stmts" else "false")
            cs.append("{| hc_pat := HLit (LInt (%d)%%Z); hc_guard := %s; hc_body := %d |}" % (i, gd, i))
        exprs.append("(let m := compile_match mg %s 0 in (cm_result_var m, cm_defs m, map (fun c => pc_guard c) (cm_cases m)))"
                     % oc.coq_list(cs))
    span = batch.add(exprs)
    yield
    for gs, model in zip(forms, batch.get(span)):
        parts = []
        for i, g in enumerate(gs):
            gsrc = "" if g is None else (" :if (= s %d)" % (100 + i) if g == "expr"
                                        else " :if " + ["0", '""', "[]", "{}", "5"][i % 5] if g == "lit"
                                        else " :if (do (setv g-tmp %d) (= s g-tmp))" % (100 + i))
            parts.append("%d%s %d" % (i, gsrc, i))
        src = "(match s %s)" % " ".join(parts)
        tree = hy_compile(hy.read_many(src), env, import_stdlib=False)
        body = tree.body
        anon = lambda name: int(re.fullmatch(r"_hy_anon_(\d+)", name).group(1))
        ok = isinstance(body[0], ast.Assign) and isinstance(body[0].value, ast.Constant) and body[0].value.value is None
        rv = anon(body[0].targets[0].id) if ok else -1
        defs, guards = [], []
        for st in body[1:]:
            if isinstance(st, ast.FunctionDef):
                cmp_ = st.body[-1].value
                gid = [n.value for n in ast.walk(st) if isinstance(n, ast.Constant) and isinstance(n.value, int) and n.value >= 100][0] - 100
                defs.append(("tuple", anon(st.name), gid))
            elif isinstance(st, ast.Match):
                for ci, c in enumerate(st.cases):
                    if c.guard is None:
                        guards.append("PGNone")
                    elif isinstance(c.guard, ast.Call):
                        guards.append(("PGCall", anon(c.guard.func.id)))
                    elif not isinstance(c.guard, ast.Compare):
                        guards.append(("PGExpr", ci))       # a literal guard, kept as the case's own guard
                    else:
                        gid = c.guard.comparators[0].value - 100
                        guards.append(("PGExpr", gid))
        real = ("tuple", rv, defs, guards)
        chk.count("match-skeleton")
        if model != real:
            chk.disagree("Pattern.compile_match vs hy_compile (result preset, lifted guard defs, guards of the cases)", src,
                         repr(model), repr(real))


def load_corpus(hy):
    import json
    import os
    path = os.path.join(vlib.VERIF, "corpus", "C08", "fixed-patterns.json")
    out = []

    def tup(x):
        return tuple(tup(y) for y in x) if isinstance(x, list) and x and isinstance(x[0], str) and x[0] in (
            "lit", "sym", "or", "value", "seq", "star", "map", "class", "kw", "as") else (
            [tup(y) for y in x] if isinstance(x, list) else x)

    def val(x):
        if isinstance(x, dict) and "Pt" in x:
            return P.Pt(**x["Pt"])
        return x
    for e in json.load(open(path)):
        pat = tup(e["pattern"])
        if pat[0] == "class":
            pat = (pat[0], pat[1], pat[2], [(k, q) for k, q in pat[3]])
        out.append((pat, val(e["subject"]), e))
    return out


def run_all(chk, hy, model_ok, thorough):
    rng = chk.rng
    env = P.make_module(hy)
    depth = 4 if thorough else 3
    n_pat = 7000 if thorough else 330
    chk.rule = ("patterns of depth <= %d from all kinds of the sublanguage (literals incl. the strings None/True, singletons, "
                "wildcard, captures incl. hyphenated names, dotted values, keywords, sequences with #* name / #* _, mappings "
                "with #** rest, class patterns on builtins, on a class with __match_args__ (positional + keyword, incl. a "
                "hyphenated keyword) and on one without, alternatives, :as); per pattern: a subject instantiated from the "
                "pattern, two mutations of it, one random value. Match forms of 1-3 cases with guards (expressions and "
                "guards compiling to statements). Non-trivial = compound pattern" % depth)
    cases = []
    seen = set()
    # corpus first: the minimised reproducers of the defects repaired by fix: commits (see known_findings.json)
    corpus = load_corpus(hy)
    for pat, subject, entry in corpus:
        seen.add(P.pat_hy(pat))
        cases.append((pat, [subject, mutate_value(subject, rng, hy)]))
        st_hy, src_hy = build_hy(hy, env, pat)
        got = run_pattern(st_hy, subject, hy)
        chk.count("corpus")
        if (got[0] if isinstance(got, tuple) else got) != entry["expect"]:
            chk.fail("corpus", {"id": entry["id"], "fixed_by": entry["commit"], "form": entry["hy"], "pattern": P.pat_hy(pat)},
                     repr(got), entry["expect"], "regression of a repaired defect: hy.eval of " + entry["hy"])
    import json
    import os
    for entry in json.load(open(os.path.join(vlib.VERIF, "corpus", "C08", "fixed-forms.json"))):
        chk.count("corpus")
        try:
            got = hy.eval(hy.read(entry["hy"]), module=env)
        except Exception as e:
            got = "raises " + type(e).__name__
        chk.case(("corpus-form", entry["hy"]), nontrivial=True)
        if got != entry["expect"]:
            chk.fail("corpus-form", {"id": entry["id"], "fixed_by": entry["commit"], "form": entry["hy"]}, repr(got),
                     repr(entry["expect"]), "regression of a repaired defect: hy.eval(hy.read(%r))" % entry["hy"])
    pats = [("class", ["Pt"], [("lit", "int", 1)], [("q", ("sym", "n1"))])]
    while len(pats) < n_pat:
        pats.append(gen_pattern(rng, rng.randrange(0, depth + 1), Names(rng)))
    for pat in pats:
        key = P.pat_hy(pat)
        if key in seen:
            continue
        seen.add(key)
        v = instantiate(pat, rng, hy, env)
        cases.append((pat, [v, mutate_value(v, rng, hy), mutate_value(v, rng, hy), random_value(rng, hy)]))
    batch = Batch()
    if model_ok:
        phases = [pattern_phase(chk, hy, env, batch, cases), structure_phase(chk, hy, env, batch, 200 if thorough else 60),
                  rejected_phase(chk, hy, env, batch, 600 if thorough else 120)]
        try:
            for ph in phases:
                next(ph)
            batch.run()
            for ph in phases:
                for _ in ph:
                    pass
        except RuntimeError as e:
            chk.obligation("model evaluates (coq_eval)", False, str(e)[-1500:])
            model_ok = False
    if not model_ok:
        # the search for a failing input without the model: the differential oracle alone
        from hy.errors import HySyntaxError
        for pat in rejected_patterns(rng, 120):
            src = "(fn [s] (match s %s 1))" % P.pat_hy(pat)
            try:
                hy.eval(hy.read(src), module=env)
                got = "accepted"
            except HySyntaxError:
                got = "HySyntaxError"
            except Exception as e:
                got = type(e).__name__
            chk.case(("rej", P.pat_hy(pat)))
            if got != "HySyntaxError":
                chk.fail("pattern-must-be-syntax-error", {"form": src}, got, "HySyntaxError", "hy.eval(hy.read(%r))" % src)
        for pat, subjects in cases:
            st_hy, src_hy = build_hy(hy, env, pat)
            st_py, src_py = build_py(hy, env, pat)
            classes = classify(pat)
            for v in subjects:
                r_hy, r_py = run_pattern(st_hy, v, hy), run_pattern(st_py, v, hy)
                chk.case(("pat", P.pat_hy(pat), repr(P.canon_val(v, hy))))
                if r_hy != r_py:
                    desc = {"pattern": P.pat_hy(pat), "python_pattern": P.pat_python(pat), "subject": repr(P.canon_val(v, hy))}
                    cls = attribute(classes, r_hy)
                    if cls:
                        desc["class"] = cls
                    chk.fail("pattern", desc, repr(r_hy), repr(r_py), src_hy)
    match_phase(chk, hy, env, 3500 if thorough else 250, depth - 1)
