"""C25 -- hy.repr of any readable model reads back to the same model."""
import time

from lib import vlib
from props import print_common as pc
from translator import print_tables

META = {
    "technique": "Coq proof over a model of the model printers of hy_repr.hy and of the reader, by induction on the "
                 "model tree, for every oracle meeting stated hypotheses; refutation witnesses for the classes the "
                 "printer gets wrong; regenerated tables; printer and reader compared with the implementation on every "
                 "generated model; round-trip oracle on models read from generated texts over every syntax form",
    "level_text": "Theorems of coq/Props/C25.v: for every model in the fragment `rt_ok` (all atoms, sequences, parenthesised, "
                  "sugared and dotted expressions, bracket strings, f-strings with conversions and nested format specs to "
                  "any depth; bracket f-strings excepted), hy.repr's text is read back as (quote m) and printing is stable; "
                  "each defect class outside the fragment is refuted by a witness that the run replays on the real code.",
    "level_note": "Trusted: Coq kernel; oracle hypotheses num_facts; translator/print_tables.py; hand-written printer and "
                  "reader models tied by differential execution on every generated case; evaluation of a quoted model "
                  "back to the model (C30's subject) is observed by the oracle, not modelled.",
}

TRUSTED = [
    "Coq 8.16.1 kernel (coqc, full .vo); vm_compute for the regenerated-table obligations, the refutation witnesses and the "
    "correspondence runs; no native_compute",
    "axioms: none (Print Assumptions: Closed under the global context for every C25 theorem)",
    "oracle hypotheses Print/RoundTrip.v:num_facts (int/float/complex texts printed by CPython are single tokens that "
    "hy.models.Integer/Float/Complex read back to the same number) -- validated against the interpreter by C27's run and "
    "on every numeric model generated here",
    "translator/print_tables.py + translator/print_sexp.py (syntax dict, registered types and formats of hy_repr.hy; "
    "reader_for table, NON_IDENT, whitespace, escape whitelist of the reader) regenerated on every run",
    "hand-written models Print/ModelRepr.v (printers) and Print/Reader.v (reader), tied by differential execution on every "
    "generated model; positions and FComponent.expression are not modelled; evaluation of (quote m) is observed on the "
    "real code only",
]


# ------------------------------------------------------------------ structural diagnosis of the known defect classes

def all_dots(s):
    return s != "" and not s.strip(".")


def dotted_defect(m):
    """an Expression that the printer renders as a dotted identifier although that text reads differently"""
    hy = pc.hy_mod()
    M = hy.models
    if len(m) >= 3 and all(type(e) is M.Symbol for e in m):
        x0, x1 = str(m[0]), str(m[1])
        if x0 == "." or (x1 == "None" and not x0.strip(".")):
            parts = [str(e) for e in (m[2:] if x1 == "None" else m[1:])]
            text = (x0 if x1 == "None" else "") + ".".join(parts)
            return any(all_dots(p) or p == "" for p in parts) or pc.num_class(text) is not None
    return False


def dotted_text(m):
    """the dotted identifier the Expression printer emits for m, or None"""
    hy = pc.hy_mod()
    M = hy.models
    if type(m) is M.Expression and len(m) >= 3 and all(type(e) is M.Symbol for e in m):
        x0, x1 = str(m[0]), str(m[1])
        if x0 == "." or (x1 == "None" and not x0.strip(".")):
            return (x0 if x1 == "None" else "") + ".".join(str(e) for e in (m[2:] if x1 == "None" else m[1:]))
    return None


def unquote_at_defect(m):
    """(unquote X) where X is printed as a dotted identifier that starts with @: printed ~@..., an unquote-splice"""
    hy = pc.hy_mod()
    M = hy.models
    if len(m) == 2 and type(m[0]) is M.Symbol and str(m[0]) == "unquote" and type(m[1]) is M.Expression:
        t = dotted_text(m[1])
        return t is not None and t.startswith("@")
    return False


def diagnose(m, raw_ctx=None, out=None):
    """names of the known defect classes that occur in model m"""
    hy = pc.hy_mod()
    M = hy.models
    if out is None:
        out = set()
    t = type(m)
    if t is M.FString:
        raw = m.brackets is not None
        for i, c in enumerate(m):
            if type(c) is M.String:
                if raw and "\r" in str(c):
                    out.add("bracket-fstring-carriage-return")
                if not raw and ("\\N{" in str(c) or (str(c).endswith("\\N") and i + 1 < len(m))):
                    out.add("fstring-named-escape-text")
            else:
                diagnose(c, raw, out)
        return out
    if t is M.FComponent:
        for j, part in enumerate(m[1:]):
            if type(part) is M.String:
                s = str(part)
                if "{" in s or "}" in s or (not raw_ctx and ("\\" in s or "\r" in s)):
                    out.add("fcomponent-spec-text-unescaped")
                if raw_ctx and "\r" in s:
                    out.add("bracket-fstring-carriage-return")
                if j + 2 < len(m) and type(m[j + 2]) is M.String:
                    out.add("fcomponent-spec-adjacent-strings")
        for c in m:
            diagnose(c, raw_ctx, out)
        return out
    if t is M.Expression and dotted_defect(m):
        out.add("dotted-form-parts")
    if t is M.Expression and unquote_at_defect(m):
        out.add("unquote-dotted-at")
    if isinstance(m, M.Sequence):
        for c in m:
            diagnose(c, raw_ctx, out)
    return out


def repair(m, raw_ctx=None):
    """a copy of m without the known defect classes (what remains must round-trip)"""
    hy = pc.hy_mod()
    M = hy.models
    t = type(m)
    if t is M.String:
        return m
    if t is M.FString:
        raw = m.brackets is not None
        comps = []
        for i, c in enumerate(m):
            if type(c) is M.String:
                s = str(c)
                if raw:
                    s = s.replace("\r", "")
                if not raw:
                    s = s.replace("\\N{", "\\N(")
                    if s.endswith("\\N") and i + 1 < len(m):
                        s += "_"
                if s:
                    comps.append(M.String(s))
            else:
                comps.append(repair(c, raw))
        return M.FString(comps, brackets=m.brackets, is_tstring=m.is_tstring)
    if t is M.FComponent:
        items = [repair(m[0], raw_ctx)]
        for part in m[1:]:
            if type(part) is M.String:
                s = str(part).replace("{", "").replace("}", "").replace("\r", "")
                if not raw_ctx:
                    s = s.replace("\\", "")
                if s and len(items) > 1 and type(items[-1]) is M.String:
                    items[-1] = M.String(str(items[-1]) + s)       # the reader never leaves two strings side by side
                elif s:
                    items.append(M.String(s))
            else:
                items.append(repair(part, raw_ctx))
        return M.FComponent(items, conversion=m.conversion, expression=m.expression, is_tstring=m.is_tstring)
    if t is M.Expression and dotted_defect(m):
        return M.Expression([M.Symbol("dotted")] + list(m))
    if t is M.Expression and unquote_at_defect(m):
        return M.Expression([m[0], M.Expression([M.Symbol("dotted")] + list(m[1]))])
    if isinstance(m, M.Sequence):
        return t(repair(x, raw_ctx) for x in m)
    return m


CLASSES = ["bracket-fstring-carriage-return", "dotted-form-parts", "fcomponent-spec-adjacent-strings",
           "fcomponent-spec-text-unescaped", "fstring-named-escape-text", "unquote-dotted-at"]


def make_matcher(cls):
    def match(rec, params):
        i = rec["input"]
        return rec["key"] == "roundtrip" and i.get("repaired_roundtrips") and i.get("classes") and i["classes"][0] == cls
    return match


def roundtrip(m):
    """(ok, observed) for one model on the real code"""
    hy = pc.hy_mod()
    txt = hy.repr(m)
    try:
        y = hy.eval(hy.read(txt))
    except Exception as e:
        return False, "%s: %s" % (type(e).__name__, str(e)[:120])
    sy, sm = pc.ser_model(y), pc.ser_model(m)
    if sy != sm:
        return False, "reads back as " + hy.repr(y)[:200]
    again = hy.repr(y)
    if again != txt:
        return False, "prints again as " + again[:200]
    return True, ""


def failing_prints():
    """models the reader produces whose printing fails: they hold an integer literal that Python cannot show in decimal
    (int.__repr__ raises beyond 4300 digits).  The failure is CPython's; what is judged is that it leaves no trace."""
    hy = pc.hy_mod()
    big = "0x" + "f" * 4000
    out = []
    for src in ["(f %s)" % big, big, "[a {b %s}]" % big, 'f"{%s}"' % big, "'(x #(%s))" % big]:
        out.append((src[:20] + "...", hy.read(src)))
    return out


def has_nested_field(m, inside=False):
    hy = pc.hy_mod()
    if isinstance(m, hy.models.FComponent):
        return inside or any(has_nested_field(x, True) for x in list(m)[1:]) or has_nested_field(m[0], False) if len(m) else inside
    if isinstance(m, hy.models.Sequence):
        return any(has_nested_field(x, False) for x in m)
    return False


def retag(m, rng):
    """the same tree built with the model constructors, every replacement field given a conversion drawn here (the reader
    can produce each combination: a conversion is written per field); nothing of a field comes from the reader's bookkeeping"""
    M = pc.hy_mod().models
    if isinstance(m, M.FComponent):
        return M.FComponent([retag(x, rng) for x in m], conversion=rng.choice([None, None, "r", "s", "a"]),
                            is_tstring=m.is_tstring)
    if isinstance(m, M.FString):
        return M.FString([retag(x, rng) for x in m], brackets=m.brackets, is_tstring=m.is_tstring)
    if isinstance(m, M.Sequence):
        return type(m)([retag(x, rng) for x in m])
    return m


def built_models():
    """models made with the constructors alone: fields nested in the spec of a field with a conversion, without one of
    their own (and the other way round)"""
    M = pc.hy_mod().models
    S, F = (lambda n: M.Symbol(n, from_parser=True)), M.FComponent
    return [
        ("<built> outer !r, nested none", M.FString([F([S("name"), M.String(">"), F([S("width")])], conversion="r")])),
        ("<built> outer !s, nested twice none", M.FString([M.String("v="), F([S("x"), F([S("y"), F([S("z")])])], conversion="s")])),
        ("<built> outer none, nested !a", M.FString([F([S("x"), M.String("*^"), F([S("k")], conversion="a")])])),
        ("<built> outer !a, nested !r and none", M.FString([F([S("x"), F([S("p")], conversion="r"), M.String("<"), F([S("q")])], conversion="a")])),
        ("<built> t-string outer !r, nested none", M.FString([F([S("a"), F([S("w")])], conversion="r", is_tstring=True)], is_tstring=True)),
    ]


def gen_models(chk, n):
    """models read from generated Hy texts over every syntax form, plus recombinations of their parts"""
    hy = pc.hy_mod()
    M = hy.models
    out, pool = [], []
    rng = chk.rng
    while len(out) < n:
        src = pc.gen_form(rng, rng.choice([1, 2, 2, 3, 3, 4]))
        try:
            m = hy.read(src)
        except Exception as e:
            chk.count("generated-text-rejected:" + pc.exc_class(e))
            continue
        out.append((src, m))
        pool.append(m)
        if has_nested_field(m) and rng.random() < 0.6:
            out.append(("<retagged> " + src, retag(m, rng)))
        if len(pool) > 3 and rng.random() < 0.25:
            # assemble a model from reader-valid parts: any forms may be the elements of a sequence
            kind = rng.choice([M.Expression, M.List, M.Dict, M.Set, M.Tuple])
            parts = [rng.choice(pool) for _ in range(rng.randrange(1, 4))]
            if kind is M.Expression and rng.random() < 0.5:
                parts = [M.Symbol(rng.choice(["quote", "unquote", "unquote-splice", "quasiquote", "unpack-iterable",
                                              "unpack-mapping", ".", "..", "annotate"] + pc.SUGAR_LOOKALIKES), from_parser=True)] \
                    + parts[:rng.randrange(1, 3)]
            out.append(("<assembled>", kind(parts)))
    return out[:n]


# the first five are the inputs of repaired defects (known_findings.json, kind fixed): regression cases of every run
FIXED_TEXTS = ['f"{a :>{w}}"', "#[[\n\nx]]", 'f"{ {1 2}}"', "#[f[\n\na{x}b]f]", 'f"{a !r :>{w}<{p}}"', 'f"{x :a{y = }}"', "(. a ... b)", "(. + _5)", 'rf"\\N{{x}}"', 'f"{a :\\\\}"',
               'f"{a :{{}"', 'f"{a :\\r}"', "(unquote @a)", "~@a", "#* x", "(. None a b)", "..a.b", "a.b.c", 'f"{x = }"',
               'f"{x !r :>5}"', 't"a{x}b"', "#[f[a{x}b]f]", "{1 2 3}", ":a", ":", "''a", "`(a ~b ~@c)", "#^ int x",
               'b"a\\xff"', '"a\\"b\'"', 'f"a{{b}}\\"c"', '#[x[a"b]x]', 'f"{a ! }"', "1e5", "NaN", "-Inf", "1+2j", "NaNj",
               'f"{"a"}"', 'f"{f"{x}"}"', "#{}", "#()", "()", 'f""', "(quote a b)", "(quote)", "(. a)", "[a . b]", "(unquote @a.b)", "~ @a.b", "(unquote @.b)", "(unquote_splice xs)", "(unpack_iterable x)",
               "(unpack_mapping (quote_ y))", "[(ｑuote x) (Quote x) (unquote_ x)]", "'(unquote_splice [a (unpack_iterable b)])", "#[f[{a\r= }]f]",
               '"\\N{BULLET}\\x00\\ud800"', "#[==[]=]==]"]


def run(chk):
    chk.trusted = TRUSTED
    chk.assumptions = [
        "a model the reader can produce = a model obtained by hy.read from some text, or a sequence model whose elements are "
        "such models (any form may be an element of a sequence), or the tree of such a model rebuilt with the model "
        "constructors, each replacement field with a conversion of its own choice",
        "equality is judged node by node: model type, value (floats by bits, every NaN equal), brackets, conversion, "
        "is_tstring; FComponent.expression and source positions are not part of the property",
        "Integer models stay below CPython's int-to-str digit limit",
    ]
    for c in CLASSES:
        chk.matchers["c25_" + c.replace("-", "_")] = make_matcher(c)
    chk.prove("Props/C25.v", ["Props/C25.vo", "Print/Ser.vo", "Print/GenChecks.vo"], [print_tables.translate])
    thorough = chk.tier == "thorough"
    hy = pc.hy_mod()
    n = 8000 if thorough else 900
    chk.rule = ("models = hy.read of fixed texts (incl. the refutation witnesses) and of seeded grammar-directed texts over every "
                "syntax form (symbols incl. odd ones, keywords, number notations, strings/bytes with every escape, bracket "
                "strings, f/t-strings with debug =, conversions, nested specs, brace escapes, named escapes, bracket f-strings, "
                "all sequence kinds, all reader sugar, dotted identifiers, comments and discards) + sequences assembled from "
                "such models; non-trivial = distinct printed text")
    cases = []
    for s in FIXED_TEXTS:
        cases.append((s, hy.read(s)))
    cases += built_models()
    cases += gen_models(chk, n)
    impl = []
    for src, m in cases:
        rec = {"text": hy.repr(m)}
        try:
            rm = hy.read(rec["text"])
            rec["read"] = "O" + pc.ser_model(rm) + "|0"
        except Exception as e:
            rec["read"] = pc.exc_class(e)
        impl.append(rec)
    chunks, index = [], []
    for ch in pc.chunked(list(range(len(cases))), 40):
        nd, texts, exprs = pc.Needs(), [], []
        for i in ch:
            try:
                exprs.append("c25_case W %s" % pc.coq_model(cases[i][1], nd))
            except TypeError:
                exprs.append("[63; %d; 63]" % pc.SEP)
                chk.count("outside-model-domain")
            texts.append(impl[i]["text"])
        chunks.append((pc.oracle_term(nd, texts), exprs))
        index.append(ch)
    t0 = time.time()
    outs = pc.run_chunks(chunks, "c25")
    chk.extra["model_eval_s"] = round(time.time() - t0, 1)
    failing = failing_prints()
    n_failed_prints = 0
    for ch, res in zip(index, outs):
        for i, (mt, mr) in zip(ch, res):
            (src, m), rec = cases[i], impl[i]
            if i % 40 == 0:
                # a print that fails part-way inside a model; the round trips that follow must not notice
                fsrc, fm = failing[(i // 40) % len(failing)]
                try:
                    hy.repr(fm)
                    chk.count("failing-print-returned")
                except ValueError:
                    n_failed_prints += 1
            chk.count("top:" + type(m).__name__)
            chk.case(rec["text"], nontrivial=True,
                     sample={"source": src[:100], "repr": rec["text"][:100]} if i % 83 == 7 else None)
            if mt == "?":
                continue
            if mt != rec["text"]:
                chk.disagree("ModelRepr.hy_repr_model vs hy.repr", src[:300], mt[:300], rec["text"][:300])
            # hy.read stops after the first form; what the model leaves unread is not compared
            if mr.rsplit("|", 1)[0] != rec["read"].rsplit("|", 1)[0]:
                chk.disagree("Reader.read_one vs hy.read on the printed text", rec["text"][:300], mr[:300], rec["read"][:300])
            ok, observed = roundtrip(m)
            if not ok:
                classes = sorted(diagnose(m))
                rep_ok = False
                if classes:
                    try:
                        rep_ok = roundtrip(repair(m))[0]
                    except Exception:
                        rep_ok = False
                for c in classes:
                    chk.count("known-class:" + c)
                chk.fail("roundtrip", {"source": src[:300], "model": repr(m)[:700] if src.startswith("<") else "hy.read(source)",
                                       "repr": hy.repr(m)[:300], "classes": classes,
                                       "repaired_roundtrips": rep_ok, "failed_prints_before": n_failed_prints},
                         observed, "a model equal to the original at every node, printing as the same text",
                         "PYTHONPATH=%s python: m = hy.read(source), or the model given (built with the constructors); "
                         "hy.eval(hy.read(hy.repr(m)))" % vlib.REPO)
