"""Shared by C35/C36/C37: a private temp directory of Hy source modules under
/var/tmp/hyverif.*, Coq term writers, small helpers."""
import atexit
import os
import shutil
import sys
import tempfile
import warnings

from lib import vlib

_TMP = []


def temp_dir(tag):
    d = tempfile.mkdtemp(prefix="hyverif.%s." % tag, dir="/var/tmp")
    _TMP.append(d)
    return d


def cleanup():
    while _TMP:
        shutil.rmtree(_TMP.pop(), ignore_errors=True)


atexit.register(cleanup)


def coq_name(s):
    """a mangled name as a Gallina text (list N)"""
    return "[" + "; ".join(str(ord(c)) for c in s) + "]%N" if s else "(@nil N)"


def coq_list(items, ty=None):
    if not items:
        return "(@nil %s)" % ty if ty else "[]"
    return "[" + "; ".join(items) + "]"


def coq_ns(pairs):
    return coq_list(["(%s, %d%%N)" % (coq_name(k), v) for k, v in pairs], "(list N * N)")


def nums(s):
    import re
    return [int(x) for x in re.findall(r"\d+", s)]


def write_modules(root, files):
    """files: {relative path: text}"""
    for rel, text in files.items():
        p = os.path.join(root, rel)
        os.makedirs(os.path.dirname(p), exist_ok=True)
        with open(p, "w", encoding="utf-8") as f:
            f.write(text)


def import_quietly(names):
    import importlib
    mods = {}
    with warnings.catch_warnings():
        warnings.simplefilter("ignore")
        for n in names:
            mods[n] = importlib.import_module(n)
    return mods


def forget_modules(prefixes):
    for k in list(sys.modules):
        if any(k == p or k.startswith(p + ".") or k.startswith(p) and p.endswith("_") for p in prefixes):
            del sys.modules[k]
