"""C15 -- Loading a Hy module from cached bytecode behaves like compiling it."""
import ast
import json
import os
import sys
import types

from lib import vlib
from props import cmd_common as cc
from props import c15_gen as g
from translator import cmd_require, cmd_suffixes, cmd_tables

META = {
    "technique": "Coq proofs over a model of _could_be_hy_src (suffix list regenerated from the interpreter and "
                 "importer.py), of compile_require's compile-time and emitted run-time require calls, of "
                 "hy.macros.require over finite macro tables and of the fresh/cached load histories; in-process "
                 "differential runs of each modelled function; subprocess histories importing generated packages "
                 "from source and from bytecode",
    "level_text": "C15_could_be_hy_iff (+ the .py/.hy/no-extension corollaries) for every file name; "
                  "C15_emitted_require_mirrors for every mangling function and every require entry shape; "
                  "C15_require_spec / _transfer_spec / _exports_spec for hy.macros.require; "
                  "C15_require_cached_eq_fresh: for every sequence of module-level require entries and defmacros that "
                  "compiles, import from source and import from bytecode give macro tables with the same keys bound to "
                  "the same macros.  Equality of module values across the .pyc round trip is CPython's bytecode cache "
                  "and is decided by importing generated packages under five cache histories.",
    "level_note": "Trusted: Coq kernel; translators cmd_suffixes/cmd_require; hand-written models tied by "
                  "differential execution (os.path.splitext + _could_be_hy_src, compile_require's emitted call, "
                  "hy.macros.require on synthetic modules); .pyc writing/validation, runpy and zipimport are not modelled.",
}

TRUSTED = [
    "Coq 8.16.1 kernel (coqc, full .vo); vm_compute for obligations on regenerated constants",
    "axioms: none (Print Assumptions: Closed under the global context for every C15 theorem)",
    "translator/cmd_suffixes.py (SOURCE_SUFFIXES of the bare interpreter, the inserted '.hy', the set subtracted in "
    "_could_be_hy_src, os.sep/extsep) and translator/cmd_require.py (shape of the emitted hy.macros.require call and of "
    "the compile-time call; literals of assignment_shape and require), regenerated on every run",
    "hand-written models Cmd/ImporterModel.v, tied by differential execution: ext_of/could_be_hy vs "
    "os.path.splitext/_could_be_hy_src; compile_time_args/emitted_call vs the AST hy_compile emits for generated require "
    "forms; require vs hy.macros.require on synthetic modules",
    "`mangle` is a parameter of the require theorems; the differential runs instantiate it with hyphen->underscore and "
    "check hy.mangle agrees on every generated name",
    "not modelled: import_module_from_string / _same_modules (relative-name resolution is exercised by the subprocess "
    "oracle), .pyc files, runpy, zipimport, reader-macro requires (:readers)",
]

# ------------------------------------------------------------------ (A) file names


def gen_filenames(rng, n):
    stems = ["mod", "a", "x-y", "é", "m.n", ".hidden", "..", ".", "", "a b", "__init__", "py", "hy", ".py", ".hy",
             "...py", "a.", "a..", "-"]
    exts = ["", ".hy", ".py", ".txt", ".PY", ".Hy", ".pyc", ".pyw", ".py.hy", ".hy.py", ".", ".py ", ".p", ".pyx", ".hy~"]
    dirs = ["", "/", "d/", "/a/b/", "./", "../", "a.py/", "a.hy/", "d.d/", "//", "a/.b/"]
    out = []
    for d in dirs:
        for s in stems:
            for e in exts:
                out.append(d + s + e)
    rng.shuffle(out)
    out = out[:n]
    for _ in range(n // 4):
        out.append("".join(rng.choice("ab./-py hy.") for _ in range(rng.randrange(0, 12))))
    return out


def check_filenames(chk, thorough):
    hy = vlib.use_repo_in_process()
    import importlib.machinery
    import hy.importer as imp
    names = gen_filenames(chk.rng, 3200 if thorough else 560)
    exprs = ["render_ext %s" % vlib.coq_text(f) for f in names]
    outs = vlib.coq_eval(["HyV.Cmd.CmdlineModel", "HyV.Cmd.ImporterModel", "HyV.Cmd.ImporterRender"], "", exprs,
                         tag="c15a", shard=100)
    py_own = [s for s in importlib.machinery.SOURCE_SUFFIXES if s != ".hy"]
    for f, o in zip(names, outs):
        d = cc._Dec(cc._nums(o))
        m_hy, m_ext = bool(d.num()), d.text()
        i_ext = os.path.splitext(f)[1]
        i_hy = bool(imp._could_be_hy_src(f))
        chk.count("filename:" + ("hy" if i_hy else "python"))
        chk.case(("fn", f), nontrivial=bool(i_ext), sample={"file": f, "ext": i_ext, "hy": i_hy} if len(f) == 9 else None)
        if (m_hy, m_ext) != (i_hy, i_ext):
            chk.disagree("ImporterModel.could_be_hy/ext_of vs hy.importer._could_be_hy_src/os.path.splitext", f,
                         repr((m_hy, m_ext)), repr((i_hy, i_ext)))
        # the property, read on the implementation: Hy iff the extension is not one of Python's other source suffixes
        if i_hy != (i_ext not in py_own):
            chk.fail("could-be-hy", {"filename": f, "ext": i_ext}, i_hy, i_ext not in py_own,
                     "hy.importer._could_be_hy_src(%r)" % f)


def ext_oracle_jobs(root, env):
    """`hy FILE` on files with various extensions holding Hy-only and Python-only text"""
    d = os.path.join(root, "ext")
    os.makedirs(d, exist_ok=True)
    hy_src = '(print "ran-as-hy")\n'
    py_src = 'print("ran-as-python")\n'
    jobs = []
    for stem_ext in ["prog.hy", "prog", "prog.txt", "prog.py", "prog.hy.py", "prog.py.hy", "prog.PY", "a.b.hy", ".py",
                     "prog.pyx"]:
        for kind, src in (("hy", hy_src), ("py", py_src)):
            fn = "%s_%s" % (kind, stem_ext) if not stem_ext.startswith(".") else stem_ext
            sub = os.path.join(d, kind)
            os.makedirs(sub, exist_ok=True)
            p = os.path.join(sub, stem_ext)
            with open(p, "w") as f:
                f.write(src)
            jobs.append((stem_ext, kind, dict(argv=[vlib.PY, "-m", "hy", p], cwd=sub, env=env)))
    return jobs


# ------------------------------------------------------------------ (B) compile_require

NAMES = ["m-a", "m_b", "add1", "_hid", "dash-name", "zed", "x1", "_p-q"]
ALIASES = ["al", "my-al", "A_b", "z-9"]


def simple_mangle(s):
    return s[:1] + s[1:].replace("-", "_")


def gen_entry(rng):
    kind = rng.choice(["plain", "plain", "dotted", "rel", "rel", "dots"])
    seg = lambda: rng.choice(["a", "b-c", "mod", "x_y", "q1"])
    if kind == "plain":
        parts, dots = [seg()], 0
        text = parts[0]
        coq = "MPlain [%s]" % vlib.coq_text(parts[0])
    elif kind == "dotted":
        parts, dots = [seg() for _ in range(rng.choice([2, 3]))], 0
        text = ".".join(parts)
        coq = "MPlain [%s]" % "; ".join(vlib.coq_text(p) for p in parts)
    elif kind == "rel":
        # only the one-dot one-segment form resolves in hy (see the report); the others are kept, thinly
        parts, dots = [seg() for _ in range(rng.choice([1, 1, 1, 1, 1, 2]))], rng.choice([1, 1, 1, 1, 1, 2])
        text = "." * dots + ".".join(parts)
        coq = "MRel %d [%s]" % (dots, "; ".join(vlib.coq_text(p) for p in parts))
    else:
        parts, dots = [], rng.choice([1, 1, 1, 1, 2])
        text = "." * dots
        coq = "MDots %d" % dots
    r = rng.choice(["none", "star", "as", "names", "names", "macros-names", "macros-star", "macros-as"])
    names = []
    if r == "none":
        rtext, rcoq = "", "None"
    elif r.endswith("star"):
        rtext, rcoq = "*", "(Some IStar)"
    elif r.endswith("as"):
        al = rng.choice(ALIASES)
        rtext, rcoq = ":as " + al, "(Some (IAs %s))" % vlib.coq_text(al)
    else:
        ns = rng.sample(NAMES, rng.choice([0, 1, 2, 3]))
        if ns and rng.random() < 0.35:
            # the same macro requested twice in one list (plain and under an alias, or under two aliases)
            ns = ns + [rng.choice(ns)]
            rng.shuffle(ns)
        items, citems = [], []
        for n in ns:
            if rng.random() < 0.4 or n in [x.split(" ")[0] for x in items]:
                al = rng.choice(ALIASES) + str(len(items))
                items.append("%s :as %s" % (n, al))
                citems.append("(%s, Some %s)" % (vlib.coq_text(n), vlib.coq_text(al)))
            else:
                items.append(n)
                citems.append("(%s, None)" % vlib.coq_text(n))
        names = ns
        rtext, rcoq = "[" + " ".join(items) + "]", "(Some (INames [%s]))" % "; ".join(citems)
    if r.startswith("macros-"):
        rtext = ":macros " + rtext
    readers = False
    if r != "none" and rng.random() < 0.25:
        # the entry also brings a reader macro; the macro part must be unaffected
        rtext += " :readers [rdr9]" if rng.random() < 0.7 else " :readers *"
        readers = True
    return {"kind": kind, "parts": parts, "dots": dots, "text": text, "coq": coq, "rest": r, "rtext": rtext,
            "rcoq": rcoq, "names": names, "readers": readers, "form": "(require %s %s)" % (text, rtext)}


def absolute_name(entry, this):
    pkg = this.split(".")[:-1]
    if entry["dots"] == 0:
        return ".".join(simple_mangle(p) for p in entry["parts"])
    base = pkg[:len(pkg) - (entry["dots"] - 1)]
    return ".".join(base + [simple_mangle(p) for p in entry["parts"]])


def decode_args(d):
    mod = d.text()
    tag = d.num()
    if tag == 3:
        n = d.num()
        a = [(d.text(), d.text()) for _ in range(n)]
    else:
        a = {1: "ALL", 2: "EXPORTS"}[tag]
    return (mod, a, d.text())


def check_compile_require(chk, thorough):
    hy = vlib.use_repo_in_process()
    from hy.compiler import hy_compile
    rng = chk.rng
    entries = [gen_entry(rng) for _ in range(1500 if thorough else 400)]
    this = "zq.outer.inner.tgt"
    exprs = ["render_entry (%s) %s %s" % (e["coq"], e["rcoq"], vlib.coq_text(this)) for e in entries]
    outs = vlib.coq_eval(["HyV.Cmd.CmdlineModel", "HyV.Cmd.ImporterModel", "HyV.Cmd.ImporterRender"], "", exprs,
                         tag="c15b", shard=200)
    saved = dict(sys.modules)
    try:
        for e, o in zip(entries, outs):
            for nm in e["parts"] + e["names"] + [x for x in ALIASES]:
                if hy.mangle(nm) != simple_mangle(nm):
                    raise RuntimeError("generator name %r is not mangled by hyphen->underscore" % nm)
            d = cc._Dec(cc._nums(o))
            m_ct = decode_args(d)
            m_rt = (decode_args(d), d.text()) if d.num() == 1 else None
            # synthetic source module with macros, registered under the absolute name the entry resolves to
            absn = absolute_name(e, this)
            macros = {simple_mangle(n): (lambda n=n: n) for n in set(e["names"]) | {"extra-one", "_private"}}
            src = types.ModuleType(absn)
            src._hy_macros = dict(macros)
            src._hy_reader_macros = {"rdr9": (lambda reader, key: 1)}
            if e["readers"]:
                chk.count("require-entry:with-readers")
            if rng.random() < 0.3:
                src._hy_export_macros = ["extra_one"]
            for k in list(sys.modules):
                if k.startswith("zq.") or k == "zq" or k in ("a", "b_c", "mod", "x_y", "q1") or k.split(".")[0] in ("a", "b_c", "mod", "x_y", "q1"):
                    del sys.modules[k]
            sys.modules[absn] = src
            m1 = types.ModuleType(this)
            sys.modules[this] = m1
            chk.count("require-entry:%s/%s" % (e["kind"], e["rest"]))
            try:
                tree = hy_compile(hy.read_many(e["form"]), m1)
            except Exception as ex:
                chk.case(("req", e["form"]), nontrivial=False)
                chk.count("require-entry:compile-error:" + type(ex).__name__)
                # relative names that climb out of the package etc. are not judged
                continue
            calls = [n for n in ast.walk(tree) if isinstance(n, ast.Call) and ast.unparse(n.func) == "hy.macros.require"]
            ct_table = dict(getattr(m1, "_hy_macros", {}))
            chk.case(("req", e["form"]), nontrivial=bool(ct_table),
                     sample={"form": e["form"], "emitted": ast.unparse(calls[0]) if calls else None} if len(chk.samples) < 8 else None)
            if not ct_table:
                # nothing was transferred at compile time: nothing may be emitted
                if calls:
                    chk.fail("emitted-without-transfer", e["form"], ast.unparse(calls[0]), "no run-time call", "hy2py")
                continue
            if len(calls) != 1:
                chk.fail("emitted-call-count", e["form"], len(calls), 1, "hy2py")
                continue
            c = calls[0]
            kw = {k.arg: ast.literal_eval(k.value) for k in c.keywords}
            pos = [ast.literal_eval(a) for a in c.args]
            a = kw.get("assignments")
            i_rt = ((pos[0], a if isinstance(a, str) else [tuple(x) for x in a], kw.get("prefix")),
                    kw.get("target_module_name"))
            if pos[1:] != [None] or set(kw) != {"target_module_name", "assignments", "prefix"}:
                chk.disagree("emitted call shape", e["form"], "require(name, None, target_module_name=, assignments=, prefix=)",
                             ast.unparse(c))
            if m_rt is None or (m_rt[0], m_rt[1]) != i_rt:
                chk.disagree("ImporterModel.emitted_call vs hy_compile's emitted hy.macros.require call", e["form"],
                             repr(m_rt), repr(i_rt))
            if m_ct != i_rt[0]:
                chk.disagree("ImporterModel.compile_time_args vs emitted arguments", e["form"], repr(m_ct), repr(i_rt[0]))
            # the property on the real code: running only the emitted code in a new module object (what a load
            # from bytecode does) must give the macro table the compile-time call gave
            m2 = types.ModuleType(this)
            sys.modules[this] = m2
            try:
                exec(compile(tree, "<c15>", "exec"), m2.__dict__)
                rt_table = dict(getattr(m2, "_hy_macros", {}))
            except Exception as ex:
                rt_table = {"<raised>": type(ex).__name__ + ": " + str(ex)[:200]}
            if rng.random() < 0.35:
                # the same request twice, the first copy in a branch that does not run: the live copy must still
                # carry its own run-time call
                wrap = rng.choice(g.DEAD)
                src2 = (wrap % e["form"]) + " " + e["form"]
                m3 = types.ModuleType(this)
                sys.modules[this] = m3
                chk.count("require-entry:repeated-with-dead-first-copy")
                try:
                    tree2 = hy_compile(hy.read_many(src2), m3)
                    ct2 = dict(getattr(m3, "_hy_macros", {}))
                    m4 = types.ModuleType(this)
                    sys.modules[this] = m4
                    exec(compile(tree2, "<c15>", "exec"), m4.__dict__)
                    rt2 = dict(getattr(m4, "_hy_macros", {}))
                except Exception as ex:
                    ct2, rt2 = ct_table, {"<raised>": type(ex).__name__ + ": " + str(ex)[:200]}
                if {k: id(v) for k, v in ct2.items()} != {k: id(v) for k, v in rt2.items()}:
                    chk.fail("runtime-require-differs:repeated-request", {"forms": src2, "module": this, "source": absn},
                             {"compile_time": sorted(ct2), "run_time_only": sorted(rt2) if "<raised>" not in rt2 else rt2},
                             "the same _hy_macros keys and objects",
                             "hy_compile the forms in a module named %s, then exec the result in a new module" % this)
            if {k: id(v) for k, v in ct_table.items()} != {k: id(v) for k, v in rt_table.items()}:
                chk.fail("runtime-require-differs", {"form": e["form"], "module": this, "source": absn,
                                                     "source_macros": sorted(macros)},
                         {"compile_time": sorted(ct_table), "run_time_only": sorted(rt_table) if "<raised>" not in rt_table else rt_table},
                         "the same _hy_macros keys and objects",
                         "hy_compile the form in a module named %s, then exec the result in a new module" % this)
    finally:
        for k in list(sys.modules):
            if k not in saved:
                del sys.modules[k]


# ------------------------------------------------------------------ (C) hy.macros.require on synthetic modules

def gen_require_case(rng, idx):
    """-> dict(env, src, target, assignments, prefix)"""
    keys = ["m_a", "m_b", "_hid", "zed", "dash_name", "x1", "_p_q"]
    env = {}
    for name in ["s0", "s1", "s0.m_a", "s1.sub_x", "s2"]:
        n = rng.choice([0, 0, 1, 2, 3, 4])
        ks = rng.sample(keys, n)
        ex = None
        if rng.random() < 0.35:
            ex = rng.sample(keys, rng.choice([0, 1, 2, 3]))
        env[name] = {"macros": [(k, 100 * (len(env) + 1) + i) for i, k in enumerate(ks)], "exports": ex}
    src = rng.choice(["s0", "s1", "s2", "s0", "nosuch"])
    target = [(k, 9000 + i) for i, k in enumerate(rng.sample(keys + ["p.m_a", "s.zed"], rng.choice([0, 0, 1, 2])))]
    r = rng.random()
    if r < 0.25:
        a = "ALL"
    elif r < 0.5:
        a = "EXPORTS"
    else:
        pool = ["m-a", "m_b", "_hid", "zed", "dash-name", "x1", "sub-x", "_p-q"]
        a = []
        have = [k for k, _ in env.get(src, {"macros": []})["macros"]]
        for _ in range(rng.choice([0, 1, 1, 2, 3])):
            # mostly names the source has, sometimes a missing one
            cand = [p for p in pool if simple_mangle(p) in have]
            n = rng.choice(cand) if cand and rng.random() < 0.8 else rng.choice(pool)
            a.append((n, rng.choice([n, n, "al-%d" % len(a), "B%d" % len(a)])))
    prefix = rng.choice(["", "", "p", "my-p", "a.b"])
    return {"env": env, "src": src, "target": target, "assignments": a, "prefix": prefix}


def coq_require_expr(c):
    def tbl(t):
        return "[%s]" % "; ".join("(%s, %d%%N)" % (vlib.coq_text(k), v) for k, v in t)
    env = "[%s]" % "; ".join(
        "(%s, {| hm_macros := %s; hm_exports := %s |})" % (
            vlib.coq_text(n), tbl(m["macros"]),
            "None" if m["exports"] is None else "(Some [%s])" % "; ".join(vlib.coq_text(x) for x in m["exports"]))
        for n, m in c["env"].items())
    a = c["assignments"]
    ca = {"ALL": "AAll", "EXPORTS": "AExports"}.get(a) if isinstance(a, str) else \
        "(APairs [%s])" % "; ".join("(%s, %s)" % (vlib.coq_text(k), vlib.coq_text(v)) for k, v in a)
    return "render_require (require mangle_simple %s %s %s %s %s)" % (env, vlib.coq_text(c["src"]), tbl(c["target"]), ca,
                                                                       vlib.coq_text(c["prefix"]))


def decode_require(o):
    d = cc._Dec(cc._nums(o))
    if d.num() == 0:
        kind = d.num()
        return ("err", {1: "import", 2: "could-not-require", 3: "cannot-import-name"}[kind], d.text())
    n = d.num()
    t = [(d.text(), d.num()) for _ in range(n)]
    n = d.num()
    out = [(d.text(), d.text(), d.num()) for _ in range(n)]
    return ("ok", t, out)


def check_require(chk, thorough):
    hy = vlib.use_repo_in_process()
    import hy.macros
    from hy.errors import HyRequireError
    rng = chk.rng
    cases = [gen_require_case(rng, i) for i in range(2500 if thorough else 600)]
    outs = vlib.coq_eval(["HyV.Cmd.CmdlineModel", "HyV.Cmd.ImporterModel", "HyV.Cmd.ImporterRender"], "",
                         [coq_require_expr(c) for c in cases], tag="c15c", shard=150)
    saved = dict(sys.modules)

    class Tok:
        def __init__(self, n):
            self.n = n
    try:
        for c, o in zip(cases, outs):
            m = decode_require(o)
            for k in [k for k in sys.modules if k.split(".")[0] in ("s0", "s1", "s2", "nosuch")]:
                del sys.modules[k]
            toks = {}
            for name, mod in c["env"].items():
                mo = types.ModuleType(name)
                mo.__file__ = "/nonexistent/%s.hy" % name
                mo._hy_macros = {}
                for k, v in mod["macros"]:
                    toks[v] = mo._hy_macros[k] = Tok(v)
                if mod["exports"] is not None:
                    mo._hy_export_macros = list(mod["exports"])
                if "." in name:
                    mo.__package__ = name.rsplit(".", 1)[0]
                else:
                    mo.__path__ = []
                sys.modules[name] = mo
            target = {k: Tok(v) for k, v in c["target"]}
            before = {k: v.n for k, v in target.items()}
            a = c["assignments"]
            try:
                out = hy.macros.require(c["src"], target, a if isinstance(a, str) else [tuple(x) for x in a],
                                        prefix=c["prefix"])
                i = ("ok", [(k, v.n) for k, v in target.items()], [(al, nm, f.n) for al, nm, f in out])
            except HyRequireError as ex:
                msg = str(ex)
                if msg.startswith("Could not require name "):
                    i = ("err", "could-not-require", msg[len("Could not require name "):].split(" from ")[0])
                elif msg.startswith("Cannot import name '"):
                    i = ("err", "cannot-import-name", msg[len("Cannot import name '"):].split("'")[0])
                elif msg.startswith("No module named"):
                    i = ("err", "import", c["src"])
                else:
                    i = ("err", "?", msg)
            except Exception as ex:
                i = ("raised", type(ex).__name__, str(ex)[:200])
            kind = a if isinstance(a, str) else "pairs"
            chk.count("require-call:%s:%s" % (kind, i[0] if i[0] != "err" else i[1]))
            chk.case(("rq", json.dumps(c, sort_keys=True)), nontrivial=(i[0] == "ok" and bool(i[2])),
                     sample={"src": c["src"], "assignments": a, "prefix": c["prefix"], "result": repr(i)[:200]}
                     if len(chk.samples) < 11 and i[0] == "ok" and i[2] else None)
            if m != i:
                chk.disagree("ImporterModel.require vs hy.macros.require", c, repr(m), repr(i))
            # the documented behaviour, judged on the implementation's result
            if i[0] == "ok":
                srcm = c["env"][c["src"]]
                have = dict(srcm["macros"])
                if have:
                    if a == "ALL":
                        want = [(k, k) for k, _ in srcm["macros"]]
                    elif a == "EXPORTS":
                        ex = srcm["exports"] if srcm["exports"] is not None else [k for k in have if not k.startswith("_")]
                        want = [(k, k) for k, _ in srcm["macros"] if k in ex]
                    else:
                        want = [(simple_mangle(n), al) for n, al in a]
                    pre = c["prefix"] + "." if c["prefix"] else ""
                    exp_out = [(simple_mangle(pre + al), n, have[n]) for n, al in want]
                    exp_t = dict(before)
                    for al, n, f in exp_out:
                        exp_t[al] = f
                    if i[2] != exp_out or dict(i[1]) != exp_t:
                        chk.fail("require-spec", c, {"table": i[1], "out": i[2]}, {"table": exp_t, "out": exp_out},
                                 "hy.macros.require on synthetic modules")
    finally:
        for k in list(sys.modules):
            if k not in saved:
                del sys.modules[k]


# ------------------------------------------------------------------ subprocess histories

def check_histories(chk, n_cases):
    cc.sweep_stale("c15")
    root = cc.mktmp("c15")
    try:
        cache = cc.warm_cache(root)
        cases = [g.gen_case(chk.rng, i, dead_prob=1.0 if i < 3 else 0.3) for i in range(n_cases)]
        outs = cc.map_pool(lambda c: g.run_history(c, root, cache), cases)
        env = cc.sub_env(pycache_prefix=cache)
        ejobs = ext_oracle_jobs(root, env)
        eouts = cc.run_many([j for _, _, j in ejobs])
    finally:
        cc.rmtmp(root)
    nproc = len(ejobs)
    for c, (d, out) in zip(cases, outs):
        nproc += len(out)
        for s in c.shapes:
            chk.count("require-shape:" + s)
        inp = {"files": c.files, "import": c.target}
        how = ("write the files to a directory; cd there; PYTHONPYCACHEPREFIX=<empty dir> HY_MESSAGE_WHEN_COMPILING=1 "
               "PYTHONPATH=%s %s -c 'import hy, %s' twice (second run loads bytecode)" % (vlib.REPO, vlib.PY, c.target))
        exp_vals = {k: (v if isinstance(v, str) else repr(v)) for k, v in c.expect_values.items()}
        exp_uses = {l: e for l, f, e in c.uses}
        own = sorted(f for f in c.files)
        first = None
        for step, res, compiled, rc in out:
            chk.count("history-step:" + step)
            chk.case(("hist", c.idx, step, json.dumps(c.files, sort_keys=True)), nontrivial=bool(c.expect_macros),
                     sample={"step": step, "target": c.files[c.target + ".hy"][:200], "macros": sorted(c.expect_macros)[:6]}
                     if c.idx % 9 == 1 and step == "cached" else None)
            if "error" in res:
                chk.fail("import-fails:" + step, inp, res["error"], "the module imports", how)
                break
            # which files were compiled at this step
            tgt = c.target + ".hy"
            others = {f for f in own if f != tgt}
            loaded = {f for f in others if f.endswith(".hy")}
            if not c.imports_user:
                loaded -= {c.pk + "/user.hy"}
            want_compiled = {"fresh": None, "cached": set(), "target-recompiled": {tgt},
                             "sources-recompiled": None, "cached-again": set()}[step]
            if want_compiled is not None and compiled != want_compiled:
                chk.fail("cache-history:" + step, inp, sorted(compiled), sorted(want_compiled), how)
            if step == "fresh" and tgt not in compiled:
                chk.fail("cache-history:fresh", inp, sorted(compiled), "the target is compiled", how)
            if step == "sources-recompiled" and tgt in compiled:
                chk.fail("cache-history:sources-recompiled", inp, sorted(compiled), "the target comes from bytecode", how)
            got_vals = {k: v for k, v in res["values"].items() if k in exp_vals}
            view = {"values": res["values"], "macros": sorted(res["macros"]), "uses": res["uses"]}
            if first is None:
                first = view
            elif view != first:
                chk.fail("cached-differs-from-fresh:" + step, inp, view, first, how)
            if got_vals != exp_vals:
                chk.fail("values:" + step, inp, got_vals, exp_vals, how)
            if set(res["macros"]) != c.expect_macros:
                chk.fail("macro-keys:" + step, inp, sorted(res["macros"]), sorted(c.expect_macros), how)
            if res["uses"] != exp_uses:
                chk.fail("macros-usable:" + step, inp, res["uses"], exp_uses, how)
    import importlib.machinery
    for (stem_ext, kind, job), r in zip(ejobs, eouts):
        ext = os.path.splitext(stem_ext)[1]
        is_hy = ext not in (".py",)
        chk.count("extension:" + (ext or "(none)"))
        chk.case(("ext", stem_ext, kind), nontrivial=True)
        ran_hy = "ran-as-hy" in r["out"]
        ran_py = "ran-as-python" in r["out"]
        if kind == "hy":
            ok = ran_hy if is_hy else (not ran_hy and r["rc"] != 0)
        else:
            ok = ran_py if not is_hy else (not ran_py and r["rc"] != 0)
        if not ok:
            chk.fail("extension-decides-language", {"file": stem_ext, "content": kind}, {"rc": r["rc"], "out": r["out"],
                                                                                          "err": cc.last_line(r["err"])},
                     "compiled as %s" % ("Hy" if is_hy else "Python"), "hy %s" % stem_ext)
    chk.extra["subprocesses"] = nproc


def run(chk):
    chk.trusted = TRUSTED
    chk.assumptions = [
        "`module values` = the module's non-dunder, non-module globals (functions by name, everything else by repr) "
        "and its _hy_macros keys with each macro's __module__/__name__; `available the same way` also means each "
        "required macro still expands in the module after the import",
        "`without compile-time side effects`: generated modules contain only require, defmacro, setv, defn, import",
        "`Python's other source suffixes` = importlib.machinery.SOURCE_SUFFIXES of the interpreter before hy is "
        "imported; the extension is os.path.splitext's",
        "require entries judged: module-level and function-local, plain/dotted/relative module names, no importlike, "
        "*, :as, name lists with :as aliases, :macros keyword, several entries per form, package-submodule fallback; "
        ":readers entries are out of scope",
    ]
    chk.rule = ("file names = directory x stem x extension grid + random strings; require entries = module-name shape x "
                "importlike shape over a fixed name pool; require calls = random synthetic module environments x "
                "ALL/EXPORTS/name lists (present and missing names) x prefixes; packages = 1-3 generated macro modules "
                "(+ a package with a macro-less __init__) and a target requiring them, imported under the history "
                "fresh, cached, target-recompiled, sources-recompiled, cached; non-trivial = something was transferred")
    chk.prove("Props/C15.v", ["Props/C15.vo", "Cmd/ImporterRender.vo"],
              [cmd_tables.translate, cmd_suffixes.translate, cmd_require.translate])
    thorough = chk.tier == "thorough"
    check_filenames(chk, thorough)
    check_compile_require(chk, thorough)
    check_require(chk, thorough)
    check_histories(chk, 160 if thorough else 30)
