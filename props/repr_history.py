"""C28: histories of hy.repr calls with scripted printers.  Used in-process by props/c28.py (the history proper) and
in a fresh interpreter (`python -c "from props import repr_history; repr_history.main()"`), where every call of a
history is made alone in a forked child of a process that has made no hy.repr call at all.

A history (JSON):
  {"nodes": [kind, ...]            kind: "plain" | "model" | "boxed"   (scripted objects, by index)
   "values": [valuespec, ...]      ordinary objects built once per history, shared by reference
   "calls": [{"target": ["node", i] | ["value", j], "script": [...], "defaults": {"i": script}}]}
valuespec: ["int", n] | ["str", s] | ["sym", s] | ["kw", s] | ["node", i] | ["val", j]
         | ["list"|"tuple"|"deque"|"mlist"|"expr"|"cyclist", [valuespec...]] | ["dict"|"odict"|"cycdict", [[k, v]...]]
         | ["deep", depth] | ["bigint"] (an Integer model beyond CPython's int-to-str limit: its repr raises)
         | ["badmodel"] (an unregistered Object subclass whose __repr__ raises)
script: list of ["emit", text] | ["look"] | ["call", target, script] | ["try", target, script, fallback] | ["raise"]
        (target: ["node", i] | ["value", j]; "try" is the call inside try/except: on failure the fallback text is added)
"""
import collections
import json
import os
import sys

PENDING = []          # scripts handed to the next printer invocation by a ["call", ...] action
DEFAULTS = {}         # node index -> script, for invocations that come from a container's printer
WORLD = {"nodes": [], "values": []}
_registered = [False]


class ScriptError(Exception):
    pass


def hy_mod():
    import hy
    return hy


def classes():
    hy = hy_mod()
    g = globals()
    if "Plain" not in g:
        class Plain:
            def __init__(self, idx):
                self.idx = idx

        class Boxed(Plain):
            pass

        class Model(hy.models.Object):
            def __init__(self, idx):
                self.idx = idx

            def __eq__(self, other):
                return self is other

            def __hash__(self):
                return id(self)
        g.update(Plain=Plain, Boxed=Boxed, Model=Model)
    return g["Plain"], g["Boxed"], g["Model"]


def state_text():
    """the state a printer sees: _quoting and which scripted objects are in _seen"""
    hr = sys.modules["hy.core.hy_repr"]
    ids = {id(n): i for i, n in enumerate(WORLD["nodes"])}
    member = "".join("1" if id(n) in hr._seen else "0" for n in WORLD["nodes"])
    return "<q%d s%s>" % (1 if hr._quoting else 0, member)


def resolve(ref):
    return WORLD["nodes"][ref[1]] if ref[0] == "node" else WORLD["values"][ref[1]]


def hy_repr(x):
    """hy.repr as defined by the current hy.core.hy_repr module object (hy.repr itself after a plain import)"""
    return sys.modules["hy.core.hy_repr"].hy_repr(x)


def run_script(node, script):
    out = []
    for a in script:
        if a[0] == "emit":
            out.append(a[1])
        elif a[0] == "look":
            out.append(state_text())
        elif a[0] == "raise":
            raise ScriptError("scripted failure")
        elif a[0] in ("call", "try"):
            depth = len(PENDING)
            if a[1][0] == "node":          # a script is handed over only to a scripted object called directly
                PENDING.append(a[2])
            try:
                out.append(hy_repr(resolve(a[1])))
            except Exception:
                if a[0] == "call":
                    raise
                out.append(a[3])
            finally:
                # scripts that were not taken up (placeholder, target not a scripted object, failure below) are dropped
                del PENDING[depth:]
        else:
            raise ValueError(a)
    return "".join(out)


def printer(node):
    if PENDING:
        script = PENDING.pop()
    else:
        script = DEFAULTS.get(node.idx, [["emit", "n%d" % node.idx]])
    return run_script(node, script)


def register(force=False):
    if _registered[0] and not force:
        return
    hy_mod()
    import hy.core.hy_repr
    reg = sys.modules["hy.core.hy_repr"].hy_repr_register
    Plain, Boxed, Model = classes()
    reg(Plain, printer)
    reg(Boxed, printer, placeholder="[boxed]")
    reg(Model, printer, placeholder="<model>")
    _registered[0] = True


def build_value(spec):
    hy = hy_mod()
    M = hy.models
    k = spec[0]
    if k == "int":
        return spec[1]
    if k == "str":
        return spec[1]
    if k == "sym":
        return M.Symbol(spec[1])
    if k == "kw":
        return M.Keyword(spec[1])
    if k == "node":
        return WORLD["nodes"][spec[1]]
    if k == "val":
        return WORLD["values"][spec[1]]
    if k == "bigint":
        return M.Integer(10 ** 5000)
    if k == "badmodel":
        if "BadModel" not in globals():
            class BadBase:
                def __repr__(self):
                    raise ValueError("this model cannot be shown")

            class BadModel(M.Object, BadBase):       # _base-repr uses the __repr__ of the first non-model base class
                pass
            globals()["BadModel"] = BadModel
        return globals()["BadModel"]()
    if k == "deep":
        x = [1, "leaf"]
        for i in range(spec[1]):
            x = [i, x]
        return x
    if k in ("list", "tuple", "deque", "mlist", "expr", "cyclist"):
        items = [build_value(s) for s in spec[1]]
        if k == "cyclist":
            items.append(items)
            return items
        return {"list": list, "tuple": tuple, "deque": collections.deque, "mlist": M.List, "expr": M.Expression}[k](items)
    if k in ("dict", "odict", "cycdict"):
        d = collections.OrderedDict() if k == "odict" else {}
        for ks, vs in spec[1]:
            d[build_value(ks)] = build_value(vs)
        if k == "cycdict":
            d["self"] = d
        return d
    raise ValueError(spec)


def build_world(h):
    register()
    Plain, Boxed, Model = classes()
    WORLD["nodes"] = [{"plain": Plain, "boxed": Boxed, "model": Model}[k](i) for i, k in enumerate(h["nodes"])]
    WORLD["values"] = []
    for spec in h["values"]:
        WORLD["values"].append(build_value(spec))


def do_call(call):
    """one top-level call: ("ok", text) | ("raise", class name); then the state it leaves"""
    hy_mod()
    hr = sys.modules["hy.core.hy_repr"]
    del PENDING[:]
    DEFAULTS.clear()
    DEFAULTS.update({int(k): v for k, v in call.get("defaults", {}).items()})
    target = resolve(call["target"])
    if call["target"][0] == "node":
        PENDING.append(call["script"])
    try:
        res = ["ok", hy_repr(target)]
    except RecursionError:
        res = ["raise", "RecursionError"]
    except Exception as e:
        res = ["raise", type(e).__name__]
    del PENDING[:]
    return res, [len(hr._seen), bool(hr._quoting)]


def reset_state():
    hy_mod()
    import hy.core.hy_repr
    hr = sys.modules["hy.core.hy_repr"]
    hr._seen.clear()
    hr._quoting = False


def run_history(h):
    """the calls of h one after the other in this interpreter"""
    build_world(h)
    out = []
    for call in h["calls"]:
        out.append(do_call(call))
    return out


def fresh_history(h):
    """every call of h alone, in a forked child of this (so far idle) interpreter"""
    build_world(h)
    out = []
    for call in h["calls"]:
        r, w = os.pipe()
        pid = os.fork()
        if pid == 0:
            try:
                os.close(r)
                res = do_call(call)
                os.write(w, json.dumps(res).encode())
            finally:
                os._exit(0)
        os.close(w)
        data = b""
        while True:
            chunk = os.read(r, 65536)
            if not chunk:
                break
            data += chunk
        os.close(r)
        os.waitpid(pid, 0)
        out.append(json.loads(data.decode()) if data else [["raise", "child-died"], [0, False]])
    return out


SIMPLE = (set, dict, list, bool, int, float, str, type(None), tuple, frozenset)


def snapshot_module_state():
    """every module-level variable of hy.core.hy_repr that holds plain data (whatever its name), copied"""
    import copy
    hr = sys.modules["hy.core.hy_repr"]
    return {k: copy.copy(v) for k, v in vars(hr).items() if not k.startswith("__") and type(v) in SIMPLE}


def restore_module_state(snap):
    hr = sys.modules["hy.core.hy_repr"]
    for k, v in snap.items():
        cur = getattr(hr, k, None)
        if type(v) in (set, dict, list) and type(cur) is type(v):
            cur.clear()
            (cur.extend if type(v) is list else cur.update)(v)       # in place: the functions keep seeing the same object
        else:
            setattr(hr, k, v)
    for k in [k for k, v in vars(hr).items() if not k.startswith("__") and type(v) in SIMPLE and k not in snap]:
        delattr(hr, k)


def restored_history(h, snap):
    """every call of h with the module state of hy.core.hy_repr put back to what it was before any call"""
    build_world(h)
    out = []
    for call in h["calls"]:
        restore_module_state(snap)
        out.append(do_call(call))
    return out


def main():
    """stdin: {"fork": [history...], "reload": [history...]}; the process has made no hy.repr call before"""
    sys.setrecursionlimit(1000)
    req = json.load(sys.stdin)
    import hy.core.hy_repr as hr
    assert not hr._seen and not hr._quoting
    register()
    snap = snapshot_module_state()
    forked = [fresh_history(h) for h in req.get("fork", [])]
    restored = [restored_history(h, snap) for h in req.get("reload", [])]
    json.dump({"fork": forked, "reload": restored}, sys.stdout)
