"""C22 -- Numeric literals read like Python plus the documented extensions."""
import ast
import json
import math
import re
import warnings

from lib import vlib
from props import lit_common as lc
from props import num_common as nc
from translator import lit_tables

META = {
    "technique": "Coq proof over a model of as_identifier's Integer/Float/Complex cascade, strip_digit_separators, "
                 "check_inf_nan_cap and of CPython's int/float/complex text grammars; regenerated separator / capitalisation "
                 "tables; extracted-model differential run against hy.read and as_identifier; differential oracle against "
                 "ast.literal_eval and the documented rules",
    "level_text": "Theorems of coq/Props/C22.v hold for every literal of the structured Python grammar / every separator "
                  "decoration / every text, with no length bound, over a model whose tables are regenerated from models.py "
                  "and hy_reader.py and whose behaviour is compared with the real reader on every run; the models of "
                  "CPython's int(), float(), complex() text grammars are validated against the interpreter on every run.",
    "level_note": "Trusted: Coq kernel; hand models of int()/float()/complex() text grammars and of "
                  "_PyUnicode_TransformDecimalAndSpaceToASCII (validated per run); Unicode digit/space classes enter as an "
                  "oracle record consulted only above U+007E; translator/lit_tables.py; extraction + OCaml driver + harness; "
                  "the cascade is modelled by hand (tie = differential execution). Float values are exact decimal "
                  "descriptions; rounding is CPython's on both sides.",
}

TRUSTED = [
    "Coq 8.16.1 kernel (coqc, full .vo); vm_compute for finite enumerations and refutation witnesses; no native_compute",
    "axioms: none (Print Assumptions: Closed under the global context for every C22 theorem)",
    "hand models of CPython's int(text, 0|10), float(text), complex(text) grammars, str.isdigit and the "
    "decimal/space-to-ASCII transform (Lit/Numeric.v) -- validated against the interpreter on generated texts each run",
    "oracle record `uni` (Py_UNICODE_ISSPACE / TODECIMAL / ISDIGIT), consulted by the model only on characters >= U+007F; "
    "the harness supplies the interpreter's values",
    "float values are exact decimal descriptions (sign, mantissa, power of ten); the harness lets CPython round them",
    "translator/lit_tables.py (digit separators, capitalisation probes, (j, J), NON_IDENT, whitespace class)",
    "hand-written model of as_identifier and the three constructors, tied by differential execution: extraction "
    "(ExtrOcamlBasic only) + extract/lit_driver.ml + this harness",
]

DIG = "0123456789"


def digits(rng, alphabet=DIG, first=None, lo=1, hi=None):
    n = rng.choice([1, 1, 2, 3, 3, 5, 8, 17, 25]) if hi is None else rng.randrange(lo, hi + 1)
    n = max(n, lo)
    s = [rng.choice(first or alphabet)] + [rng.choice(alphabet) for _ in range(n - 1)]
    return "".join(s)


def py_underscores(rng, ds):
    """Python's rule: single underscores between digits"""
    out = [ds[0]]
    for c in ds[1:]:
        if rng.random() < 0.25:
            out.append("_")
        out.append(c)
    return "".join(out)


def gen_pylit(rng):
    """a Python numeric literal, with its kind"""
    r = rng.random()
    us = (lambda s: py_underscores(rng, s)) if rng.random() < 0.5 else (lambda s: s)
    if r < 0.18:
        if rng.random() < 0.15:
            return us("0" * rng.randrange(1, 5)), "decint"
        n = 300 if rng.random() < 0.02 else None
        return us(digits(rng, first="123456789", hi=n, lo=1 if n is None else n)), "decint"
    if r < 0.40:
        kind, alpha = rng.choice([("x", "0123456789abcdefABCDEF"), ("o", "01234567"), ("b", "01")])
        p = "0" + (kind if rng.random() < 0.6 else kind.upper())
        body = us(digits(rng, alpha))
        return p + ("_" if rng.random() < 0.2 else "") + body, "radixint"

    def mant():
        q = rng.random()
        if q < 0.4:
            return us(digits(rng)) + "." + us(digits(rng))
        if q < 0.6:
            return "." + us(digits(rng))
        if q < 0.8:
            return us(digits(rng)) + "."
        return None

    def expo():
        e = rng.choice(["1", "0", "5", "10", "308", "309", "400", "99999999999", "007"]) if rng.random() < 0.7 else digits(rng, hi=4)
        return rng.choice("eE") + rng.choice(["", "+", "-"]) + us(e)
    if r < 0.75:
        m = mant()
        if m is None:
            return us(digits(rng)) + expo(), "float"
        return m + (expo() if rng.random() < 0.5 else ""), "float"
    m = mant()
    if m is None:
        m = us(digits(rng))      # digitpart j (leading zeros allowed)
    elif rng.random() < 0.4:
        m = m + expo()
    if rng.random() < 0.15 and "." not in m:
        m = us(digits(rng)) + expo()
    return m + rng.choice("jJ"), "imag"


def decorate(rng, t):
    """insert runs of separators after random positions (never before the first character)"""
    out = [t[0]]
    for c in t[1:]:
        if rng.random() < 0.2:
            out.append("".join(rng.choice("_,") for _ in range(rng.choice([1, 1, 2, 3]))))
        out.append(c)
    if rng.random() < 0.3:
        out.append("".join(rng.choice("_,") for _ in range(rng.choice([1, 2]))))
    return "".join(out)


def case_mut(rng, w):
    return "".join(c.upper() if rng.random() < 0.5 else c.lower() for c in w)


SPECIALS = ["NaN", "Inf", "-Inf", "+Inf", "-NaN", "+NaN", "Infinity", "-Infinity"]
UNI = ["٣", "١٢", "１２", "\xa0", " ", "\x85", "²", "٫", "İ", "\x1c", "\x7f", "۵", "𝟗", "　", "ı", "Ⅷ"]


def gen_extension(rng):
    r = rng.random()
    if r < 0.30:
        t, _ = gen_pylit(rng)
        t = t.replace("_", "")
        if rng.random() < 0.3:
            t = rng.choice("+-") + t
        return decorate(rng, t), "separators"
    if r < 0.42:
        t = "0" * rng.randrange(1, 4) + digits(rng)
        if rng.random() < 0.3:
            t = rng.choice("+-") + t
        if rng.random() < 0.3:
            t = decorate(rng, t)
        return t, "leading-zeros"
    if r < 0.62:
        w = rng.choice(SPECIALS)
        q = rng.random()
        if q < 0.5:
            return w, "special"
        if q < 0.8:
            sign = w[0] if w[0] in "+-" else ""
            return sign + case_mut(rng, w.lstrip("+-")), "special-case"
        return decorate(rng, w) if len(w) > 1 else w, "special-separators"

    def part():
        q = rng.random()
        if q < 0.25:
            return digits(rng, hi=4)
        if q < 0.6:
            t, k = gen_pylit(rng)
            while k not in ("float",):
                t, k = gen_pylit(rng)
            return t.replace("_", "")
        if q < 0.8:
            return rng.choice(["NaN", "Inf", "Infinity"])
        if q < 0.9:
            return case_mut(rng, rng.choice(["nan", "inf"]))
        return ""
    a, b = part(), part()
    t = rng.choice(["", "", "+", "-"]) + a + rng.choice("+-") + b + rng.choice("jJ")
    if rng.random() < 0.25:
        t = decorate(rng, t) if len(t) > 1 else t
    return t, "complex"


EXH_ALPHABET = "019.eEjJxXbo+-_,nNaIf"
IDCHARS = "0123456789abcdefxXoObBeEjJ.+-_,nNaAiIfFtTyYzZ!?*/<>=&%$@^|\\:#"


def gen_nearmiss(rng):
    r = rng.random()
    if r < 0.55:
        t = (gen_pylit(rng)[0] if rng.random() < 0.5 else gen_extension(rng)[0])
        for _ in range(rng.choice([1, 1, 2])):
            i = rng.randrange(len(t) + 1)
            q = rng.random()
            if q < 0.45:
                t = t[:i] + rng.choice("xXoObBeEjJ.+-_,aZn") + t[i:]
            elif q < 0.65 and t:
                i = min(i, len(t) - 1)
                t = t[:i] + t[i + 1:]
            elif q < 0.8 and t:
                i = min(i, len(t) - 1)
                t = t[:i] + t[i] + t[i:]
            elif q < 0.9:
                t = rng.choice("_,+-.") + t
            else:
                t = t[:i] + rng.choice(UNI) + t[i:]
        return t or "x", "mutated"
    if r < 0.70:
        return rng.choice(["0x", "0b2", "0o8", "1e", "e5", ".", "..", "...", "1..2", "a.b", ".a", "..a.b", "a.", "1.a", "a.1",
                           "1.2.3", "j", "J", "jj", "-", "+", "+-1", "1+2", "1-", "_1", ",1", "_", ",", "0_", "0,,", "1__",
                           "0x_", "0_x1", "+_1", "-,1", ".,5", "._5", "+.,5", "-01", "+007", "0,1", "00_1", "NaN,", "Na,N",
                           "Inf_", "I_nf", "InfINITY", "1e+_5", "1+_2j", "1+Na,Nj", "1e5e5", "0e", "00e1", "0x1p3", ".j",
                           "-.5j", "-.e1", "1.j", "1_.j", "infj", "nanj", "1+infj", "-j", "+j", "1+j", "1e999", "-1e999j",
                           "a..b", ".a.", "a.b.c", "..", "1.2.a", "a.-1", "a.+", "a.1e5", "j_", "J,", "j,_", "J__", "+j_", "-J,", "In_f", "I_nf", "I,nf", "-In_f", "+I__nf",
                           "In,_f", "N_aN", "Na_N", "Na,N", "-N_aN", "N__a,N", "1+In_fj", "In_f+1j", "N_aNj", "a.In_f"]), "fixed"
    if r < 0.85:
        t = rng.choice(UNI)
        q = rng.random()
        if q < 0.3:
            return t + digits(rng, hi=3), "unicode"
        if q < 0.6:
            return digits(rng, hi=3) + t, "unicode"
        if q < 0.8:
            return digits(rng, hi=2) + rng.choice([".", "e", "x", "+", ""]) + t + rng.choice(["", "j", "٥"]), "unicode"
        return t + rng.choice(UNI), "unicode"
    n = rng.choice([1, 2, 3, 4, 6])
    return "".join(rng.choice(IDCHARS) for _ in range(n)), "random"


def gen_blank_complex(rng):
    """a blank (ASCII: constructor only; non-ASCII: readable) before a two-part complex text whose parts are special
    words in any capitalisation or floats that may overflow: the capitalisation checks then see shifted slices"""
    def part():
        q = rng.random()
        if q < 0.45:
            return case_mut(rng, rng.choice(["inf", "nan", "infinity"]))
        if q < 0.55:
            return rng.choice(["Inf", "NaN"])
        return rng.choice(["1", "5.5", ".9", "535.34435"]) + rng.choice(["", "e400", "E+967", "e308", "e309", "e-400", "e+5", "e-5"])
    blank = rng.choice([" ", "\t", "\x0b", "\x0c", "\xa0", "\u2009", "\x85", "(", ""])
    t = blank + rng.choice(["", "+", "-"]) + part() + rng.choice("+-") + part() + rng.choice("jJ")
    return t, "blank-complex"


def gen_ctor_only(rng):
    """texts only as_identifier(reader=None) can see: whitespace, parentheses, ..."""
    core = rng.choice([gen_pylit(rng)[0], gen_extension(rng)[0], "1+2j", "j", "a", "1"])
    q = rng.random()
    if q < 0.3:
        return rng.choice([" ", "\t", "\n", "\x0b", "\x0c", "\r", "  "]) + core, "ctor"
    if q < 0.5:
        return core + rng.choice([" ", "\t", "\n", " \t"]), "ctor"
    if q < 0.7:
        return "(" + rng.choice(["", " "]) + core + rng.choice(["", " "]) + rng.choice([")", "", "))"]) + rng.choice(["", " "]), "ctor"
    if q < 0.85:
        i = rng.randrange(len(core) + 1)
        return core[:i] + rng.choice(" ()[]{};\"'`~") + core[i:], "ctor"
    return rng.choice(["", ":a", "#a", ":", "#", "a b", "a.:b", "a.#", ".:", "a.(b", "a. b"]), "ctor"


# ------------------------------------------------------------------ hypothesis validation

NUMALPHA = "0123456789" * 3 + "abcdefxXoObBeEjJ" + "..++--__" + " \t\n()" + "nNaAiIfFtTyY" + "?\x00"


def validate_cpython_grammars(chk, rng, n, binary):
    """py_int / py_float / py_complex / isdigit_str against int() / float() / complex() / str.isdigit"""
    texts = []
    for _ in range(n):
        q = rng.random()
        if q < 0.35:
            t = gen_pylit(rng)[0]
        elif q < 0.55:
            t = gen_extension(rng)[0].replace(",", "")
        elif q < 0.7:
            t = gen_nearmiss(rng)[0].replace(",", "_")
        else:
            t = "".join(rng.choice(NUMALPHA) if rng.random() < 0.93 else rng.choice(UNI) for _ in range(rng.choice([1, 2, 3, 5, 8])))
        if rng.random() < 0.15:
            t = rng.choice([" ", "\xa0", "\t", "+", "-", "( ", "_"]) + t + rng.choice(["", " ", "\xa0", " )", "_", "\n"])
        texts.append(t)
    lines = []
    for t in texts:
        tb = nc.utable(t)
        lines += [("pyint", tb, "1", lc.arg(t)), ("pyint", tb, "0", lc.arg(t)), ("pyfloat", tb, lc.arg(t)),
                  ("pycomplex", tb, lc.arg(t)), ("isdigit", tb, lc.arg(t))]
    res = lc.run_driver(binary, lines)
    bad = []

    def attempt(f):
        try:
            with warnings.catch_warnings():
                warnings.simplefilter("ignore")
                return f()
        except ValueError:
            return None
    for i, t in enumerate(texts):
        w0 = attempt(lambda: int(t, 0))
        w10 = attempt(lambda: int(t, 10))
        wf = attempt(lambda: float(t))
        wc = attempt(lambda: complex(t))
        got = [nc.decode_opt(res[5 * i], "int"), nc.decode_opt(res[5 * i + 1], "int"), nc.decode_opt(res[5 * i + 2], "float"),
               nc.decode_opt(res[5 * i + 3], "complex"), bool(res[5 * i + 4][0])]
        want = [w0, w10, None if wf is None else nc.canon_float(wf),
                None if wc is None else (nc.canon_float(wc.real), nc.canon_float(wc.imag)), t.isdigit()]
        for name, g, w in zip(["int(t,0)", "int(t,10)", "float(t)", "complex(t)", "t.isdigit()"], got, want):
            if g != w:
                bad.append((name, t, g, w))
    chk.obligation("models of int(t,0), int(t,10), float(t), complex(t), str.isdigit agree with CPython on %d generated texts" % n,
                   not bad, repr(bad[:4]))
    chk.extra["cpython_grammar_validation_cases"] = n


# ------------------------------------------------------------------ known-finding matchers

def _observed_numeric(rec):
    return rec["observed"].startswith(("('int'", "('float'", "('complex'"))


def m_nonascii(rec, params):
    """a text with a non-ASCII character reads as a number (CPython's constructors take Unicode digits and spaces)"""
    return rec["key"] == "non-number-reads-as-number" and any(ord(c) > 127 for c in rec["input"]["text"]) and _observed_numeric(rec)


def m_leading_zero_float(rec, params):
    """decimal integer with a leading zero and a sign or separators reads as Float of the same value"""
    t = rec["input"]["text"]
    core = "".join(c for c in t if c not in "_,")
    if rec["key"] != "number-misread" or not re.fullmatch(r"[+-]?0[0-9]+", core) or core == t and core[0] not in "+-":
        return False
    return rec["observed"].startswith("('float'") and rec["observed"] == repr(("float", nc.canon_float(float(int(core, 10)))))


def m_sep_before_digit(rec, params):
    """a separator before the first digit, after a sign or a dot, is accepted"""
    t = rec["input"]["text"]
    return (rec["key"] == "non-number-reads-as-number" and all(ord(c) < 128 for c in t) and _observed_numeric(rec)
            and re.match(r"[+\-.]+[_,]", t) is not None)


def m_infinity_word(rec, params):
    """Infinity spelled out (any capitalisation after the leading Inf) reads as a number"""
    t = rec["input"]["text"]
    return (rec["key"] in ("non-number-reads-as-number", "number-misread") and _observed_numeric(rec)
            and re.search(r"Inf[iI][nN][iI][tT][yY]", "".join(c for c in t if c not in "_,")) is not None)


def m_bare_j(rec, params):
    """j or J followed only by separators reads as Complex 1j (the exclusion of bare j compares the unstripped text)"""
    return (rec["key"] == "non-number-reads-as-number" and re.fullmatch(r"[jJ][_,]+", rec["input"]["text"]) is not None
            and rec["observed"].startswith("('complex'"))


# ------------------------------------------------------------------ main

def oracle(chk, text, got, via):
    """the property statement on one text; got = canonical observation of the implementation"""
    def bad(key, exp):
        chk.fail(key, {"text": text, "codepoints": [ord(c) for c in text], "via": via}, repr(got), exp,
                 "PYTHONPATH=%s /venv/bin/python -c 'import hy; print(repr(hy.read(%r)))'" % (vlib.REPO, text))
    cl = nc.classify(text)
    chk.count("rules:" + cl[0] + (":" + cl[1] if cl[0] != "number" else ""))
    if cl[0] == "number":
        if tuple(cl[1:]) != tuple(got):
            bad("number-misread", repr(cl[1:]))
    elif cl[0] == "not-number":
        if got[0] in ("int", "float", "complex"):
            bad("non-number-reads-as-number", "a symbol or dotted form (%s)" % cl[1])
        elif got[0] == "sym":
            if got[1] != text:
                bad("symbol-text-differs", text)
        elif got[0] == "dotted":
            e = got[1]
            spell = {".".join(e[1:])} if e[0] == "." else set()
            if len(e) > 2 and e[1] == "None":
                spell.add(e[0] + ".".join(e[2:]))
            if text not in spell:
                bad("dotted-form-differs", text)
        elif got[0] == "err":
            if "." not in text:
                bad("dotless-text-rejected", "a symbol")
        elif got[0] == "illegal" and via == "as_identifier":
            pass
        else:
            bad("unexpected-outcome", "a symbol or dotted form")
    else:
        pass  # the documented rules do not say: counted, not judged


def run(chk):
    chk.trusted = TRUSTED
    chk.assumptions = [
        "'number by these rules' = accepted by the documented grammar: ASCII text whose separator-free form is a Python "
        "numeric literal (optionally signed, decimal integers with any leading zeros), NaN / Inf with optional sign, or a "
        "complex text <real>[+-]<imag>j built from those; separators may follow a digit, '.', e, j or a radix letter",
        "a separator before the first digit makes the text a non-number (the documented prohibition); other unlisted "
        "separator placements (after a sign inside the literal, after a digit-free NaN/Inf) are counted as unspecified and not "
        "judged; a separator inside the word NaN or Inf makes the text an ordinary identifier, not the documented literal",
        "texts accepted only because CPython's constructors take Unicode digits / whitespace are one known finding",
        "integer literals beyond CPython's 4300-digit limit are not generated (Python itself refuses them)",
    ]
    chk.matchers.update({"nonascii_numeric": m_nonascii, "leading_zero_float": m_leading_zero_float,
                         "sep_before_digit": m_sep_before_digit, "infinity_word": m_infinity_word,
                         "bare_j_separators": m_bare_j})
    chk.prove("Props/C22.v", ["Props/C22.vo", "Lit/Extract.vo"], [lit_tables.translate])
    try:
        binary = lc.build_driver()
    except Exception as e:   # a broken tie must not stop the oracle on the real code
        chk.obligation("extracted model builds", False, str(e)[-1500:])
        binary = None
    thorough = chk.tier == "thorough"
    rng = chk.rng
    try:
        hy = vlib.use_repo_in_process()
    except Exception:
        import traceback
        chk.fail("hy-core-unreadable", {"text": "import hy"}, traceback.format_exc()[-1500:], "hy imports",
                 "PYTHONPATH=%s /venv/bin/python -c 'import hy'" % vlib.REPO)
        return
    if binary:
        validate_cpython_grammars(chk, rng, 150000 if thorough else 12000, binary)
    else:
        chk.count("model-dependent parts skipped (no extracted model)")

    n = 400000 if thorough else 24000
    cases = []
    # corpus: texts on which a past run of the model and the implementation disagreed (run first).  The second
    # capitalisation check of Complex.__new__ sees everything after the first sign, and isinf() also holds for an
    # imaginary part that overflows; with a leading blank the first check sees only the blank.
    T = 2 ** 1024 - 2 ** 970     # the smallest decimal that rounds to infinity
    for t in ["\x0b-inf+535.34435e400J", "\x0c+iNf+.9E+967J", "\xa0-inf+5e400j", "\xa0inf+1j", " inf+1e400j", " Inf+1e400j",
              "\xa0inf+%dj" % T, "\xa0inf+%dj" % (T - 1), "\xa0inf+%d.5e-1j" % (10 * T), "\xa0inf+%de-3j" % (1000 * T - 1),
              "\xa0inf+1e309j", "\xa0inf+1e308j", "\xa0inf+0e999j", "\xa0inf+0.000001e315j", "\xa0inf+17976931348623158e292j",
              "\xa0inf+17976931348623157e292j", "1e400+infj", "\xa01e400+infj", "\xa0nan+1e400j"]:
        cases.append((t, "corpus"))
    # every placement of one separator inside or after the documented special spellings
    for w in ["NaN", "Inf", "-Inf", "+Inf", "-NaN", "+NaN"]:
        for i in range(1, len(w) + 1):
            for sp in "_,":
                cases.append((w[:i] + sp + w[i:], "special-one-separator"))
    for _ in range(n):
        q = rng.random()
        if q < 0.30:
            t, k = gen_pylit(rng)
            cases.append((t, "pylit:" + k))
        elif q < 0.60:
            t, k = gen_extension(rng)
            cases.append((t, "ext:" + k))
        elif q < 0.92:
            t, k = gen_nearmiss(rng)
            cases.append((t, "near:" + k))
        elif q < 0.96:
            t, k = gen_ctor_only(rng)
            cases.append((t, k))
        else:
            t, k = gen_blank_complex(rng)
            cases.append((t, k))
    import itertools
    for L in range(1, 5 if thorough else 4):
        for tup in itertools.product(EXH_ALPHABET, repeat=L):
            cases.append(("".join(tup), "exhaustive-short"))
    chk.extra["exhaustive_short_texts"] = "all texts of length <= %d over %r" % (4 if thorough else 3, EXH_ALPHABET)
    chk.rule = ("texts = every text of length <= %d over %r, plus generated: 30%% Python literals from the literal grammar (dec/bin/oct/hex integers, point and exponent floats, "
                "imaginary; optional underscores), 30%% documented extensions (separator runs, leading zeros, NaN/Inf with "
                "sign, case and separator variants, a+bj from floats/ints/specials), 32%% near-misses (insert/delete/"
                "duplicate a character, leading separators, fixed edge texts, Unicode digits/spaces, random identifier "
                "characters), 8%% texts only a constructor can receive (whitespace, parentheses); non-trivial = distinct "
                "text that reads as a number") % (4 if thorough else 3, EXH_ALPHABET)
    NONID = set(" \t\n\r\x0b\x0c()[]{};\"'`~")
    lines = []
    for t, _ in cases:
        tb = nc.utable(t)
        lines.append(("ident", tb, "1", lc.arg(t)))
        lines.append(("ident", tb, "0", lc.arg(t)))
    res = lc.run_driver(binary, lines) if binary else None
    for i, (t, kind) in enumerate(cases):
        chk.count("gen:" + kind)
        got_ct = nc.observe_as_identifier(hy, t)
        m_rd = nc.decode_ident(res[2 * i], t) if res else None
        m_ct = nc.decode_ident(res[2 * i + 1], t) if res else None
        if res and got_ct != m_ct:
            chk.disagree("Lit.Numeric.as_identifier(reader=None) vs hy.reader.hy_reader.as_identifier", t, repr(m_ct), repr(got_ct))
        readable = bool(t) and not (set(t) & NONID) and t[0] not in ":#"
        got = None
        if readable:
            o = nc.observe_read(hy, t)
            if o[0] == "forms" and len(o[1]) == 1:
                got = o[1][0]
            elif o[0] == "lex":
                got = o[1]
            else:
                got = ("unexpected", repr(o)[:80])
            if res and got != m_rd:
                chk.disagree("Lit.Numeric.as_identifier(reader) vs hy.read_many", t, repr(m_rd), repr(got))
        obs = got if readable else got_ct
        chk.case(t, nontrivial=obs[0] in ("int", "float", "complex"),
                 sample={"text": t, "read": repr(obs)[:100]} if i % 4001 == 3 else None)
        chk.count("impl:" + obs[0])
        if kind.startswith("pylit"):
            # first clause: every Python numeric literal reads as the model of the matching type with Python's value
            try:
                v = ast.literal_eval(t)
            except Exception as e:   # the generator is meant to produce valid literals only
                chk.disagree("literal generator vs ast.literal_eval", t, "a literal", repr(e))
                continue
            want = (("int", v) if isinstance(v, int) else ("float", nc.canon_float(v)) if isinstance(v, float)
                    else ("complex", nc.canon_float(v.real), nc.canon_float(v.imag)))
            if obs != want:
                chk.fail("python-literal-misread", {"text": t, "codepoints": [ord(c) for c in t], "via": "hy.read"}, repr(obs),
                         repr(want), "hy.read(%r) vs ast.literal_eval" % t)
            cl = nc.classify(t)
            if cl[0] != "number" or tuple(cl[1:]) != want:
                chk.disagree("documented-rules reference vs ast.literal_eval", t, repr(cl), repr(want))
        if readable:
            oracle(chk, t, obs, "hy.read")
    import os
    if os.environ.get("LIT_DEBUG"):
        for d in chk.disagreements[:40]:
            print("DISAGREE", d["correspondence"], repr(d["input"]), d["model"], d["impl"])
        for f in chk.failures[:60]:
            print("FAIL", f["key"], repr(f["input"].get("text")), f["observed"][:100], "| exp", f["expected"][:100])


def replay(path):
    rec = json.load(open(path))
    print(json.dumps(rec, indent=1)[:3000])
    t = rec.get("input", {}).get("text")
    if t is not None:
        hy = vlib.use_repo_in_process()
        print("now reads as:", nc.observe_read(hy, t), "as_identifier:", nc.observe_as_identifier(hy, t))
    return 0


def setup():
    lc.build_driver()
