"""Shared by C30/C31: canonical dumps of models / values, their Gallina terms,
a parser for terms printed by Coq, generators of model trees, texts and
quasiquote templates, and the runner of the real quote / quasiquote."""
import re
import struct

from lib import vlib

IMPORTS = ["HyV.Base.Text", "HyV.Quote.Model"]

# ------------------------------------------------------------------ dumps
KINDS = {"Expression": "KExpr", "List": "KList", "Tuple": "KTuple", "Set": "KSet", "Dict": "KDict"}


def fbits(x):
    return struct.unpack(">Q", struct.pack(">d", x))[0]


def from_bits(b):
    return struct.unpack(">d", struct.pack(">Q", b))[0]


class Opaque:
    """an object hy.as_model cannot represent; truthy, not iterable"""
    def __init__(self, n):
        self.n = n

    def __repr__(self):
        return "Opaque(%d)" % self.n


class UserErr(Exception):
    def __init__(self, n):
        super().__init__(n)
        self.n = n


def dump(v):
    """canonical, hashable description of a run-time value (models with any children, plain Python values)"""
    from hy import models as M
    t = type(v)
    if t is M.Symbol:
        return ("VSym", str(v))
    if t is M.Keyword:
        return ("VKw", v.name)
    if t is M.Integer:
        return ("VInt", int(v))
    if t is M.Float:
        return ("VFloat", fbits(float(v)))
    if t is M.Complex:
        return ("VCpx", fbits(v.real), fbits(v.imag))
    if t is M.String:
        return ("VStr", str(v), v.brackets)
    if t is M.Bytes:
        return ("VBytes", tuple(bytes(v)))
    if t is M.FString:
        return ("VSeq", ("KFString", v.brackets, v.is_tstring), tuple(dump(x) for x in v))
    if t is M.FComponent:
        return ("VSeq", ("KFComp", v.conversion, v.expression, v.is_tstring), tuple(dump(x) for x in v))
    if t.__name__ in KINDS and t is getattr(M, t.__name__):
        return ("VSeq", (KINDS[t.__name__],), tuple(dump(x) for x in v))
    if t is bool:
        return ("PBool", v)
    if t is int:
        return ("PInt", v)
    if t is float:
        return ("PFloat", fbits(v))
    if t is complex:
        return ("PCpx", fbits(v.real), fbits(v.imag))
    if t is str:
        return ("PStr", v)
    if t is bytes:
        return ("PBytes", tuple(v))
    if v is None:
        return ("PNone",)
    if t is list:
        return ("PList", tuple(dump(x) for x in v))
    if t is tuple:
        return ("PTuple", tuple(dump(x) for x in v))
    if t is Opaque:
        return ("POpaque", v.n)
    return ("OTHER", t.__name__, repr(v)[:80])


def is_pure_model(d):
    if d[0] == "VSeq":
        return all(is_pure_model(x) for x in d[2])
    return d[0].startswith("V")


def count_nodes(d):
    if d[0] in ("VSeq",):
        return 1 + sum(count_nodes(x) for x in d[2])
    if d[0] in ("PList", "PTuple"):
        return 1 + sum(count_nodes(x) for x in d[1])
    return 1


def classes_in(d, acc=None):
    acc = set() if acc is None else acc
    if d[0] == "VSeq":
        acc.add(d[1][0])
        for x in d[2]:
            classes_in(x, acc)
    else:
        acc.add(d[0])
    return acc


# ------------------------------------------------------------------ Gallina terms
def ctext(s):
    return "[" + "; ".join(str(ord(c)) for c in s) + "]%N" if s else "(@nil N)"


def copt(s):
    return "None" if s is None else "(Some %s)" % ctext(s)


def cbool(b):
    return "true" if b else "false"


def cz(z):
    return "(%d)%%Z" % z


def cn(n):
    return "%d%%N" % n


def cbytes(b):
    return "[" + "; ".join(str(x) for x in b) + "]%N" if b else "(@nil N)"


def ckind(k):
    if k[0] == "KFString":
        return "(KFString %s %s)" % (copt(k[1]), cbool(k[2]))
    if k[0] == "KFComp":
        return "(KFComp %s %s %s)" % (copt(k[1]), copt(k[2]), cbool(k[3]))
    return k[0]


def clist(items, ty):
    return "[" + "; ".join(items) + "]" if items else "(@nil %s)" % ty


def cmodel(d):
    """Gallina term of type model for the dump of a pure model"""
    k = d[0]
    if k == "VSym":
        return "(MSym %s)" % ctext(d[1])
    if k == "VKw":
        return "(MKw %s)" % ctext(d[1])
    if k == "VInt":
        return "(MInt %s)" % cz(d[1])
    if k == "VFloat":
        return "(MFloat %s)" % cn(d[1])
    if k == "VCpx":
        return "(MCpx %s %s)" % (cn(d[1]), cn(d[2]))
    if k == "VStr":
        return "(MStr %s %s)" % (ctext(d[1]), copt(d[2]))
    if k == "VBytes":
        return "(MBytes %s)" % cbytes(d[1])
    if k == "VSeq":
        return "(MSeq %s %s)" % (ckind(d[1]), clist([cmodel(x) for x in d[2]], "model"))
    raise ValueError("not a model: %r" % (d,))


def cvalue(d):
    k = d[0]
    if k in ("VSym", "VKw"):
        return "(%s %s)" % (k, ctext(d[1]))
    if k in ("VInt", "PInt"):
        return "(%s %s)" % (k, cz(d[1]))
    if k in ("VFloat", "PFloat"):
        return "(%s %s)" % (k, cn(d[1]))
    if k in ("VCpx", "PCpx"):
        return "(%s %s %s)" % (k, cn(d[1]), cn(d[2]))
    if k == "VStr":
        return "(VStr %s %s)" % (ctext(d[1]), copt(d[2]))
    if k in ("VBytes", "PBytes"):
        return "(%s %s)" % (k, cbytes(d[1]))
    if k == "VSeq":
        return "(VSeq %s %s)" % (ckind(d[1]), clist([cvalue(x) for x in d[2]], "value"))
    if k == "PStr":
        return "(PStr %s)" % ctext(d[1])
    if k == "PBool":
        return "(PBool %s)" % cbool(d[1])
    if k == "PNone":
        return "PNone"
    if k in ("PList", "PTuple"):
        return "(%s %s)" % (k, clist([cvalue(x) for x in d[1]], "value"))
    if k == "POpaque":
        return "(POpaque %s)" % cn(d[1])
    raise ValueError("no Gallina term for %r" % (d,))


# ------------------------------------------------------------------ parsing what Coq prints
_TOK = re.compile(r"\s*(%[A-Za-z_]+|[A-Za-z_][A-Za-z_0-9'.]*|\d+|[()\[\];,\-])")


def parse_term(s):
    toks = []
    i = 0
    s = s.strip()
    while i < len(s):
        m = _TOK.match(s, i)
        if not m:
            raise ValueError("cannot tokenise Coq output at %r" % s[i:i + 40])
        if not m.group(1).startswith("%"):
            toks.append(m.group(1))
        i = m.end()
    pos = [0]

    def peek():
        return toks[pos[0]] if pos[0] < len(toks) else None

    def nxt():
        t = toks[pos[0]]
        pos[0] += 1
        return t

    def atom():
        t = nxt()
        if t == "(":
            if peek() == "-":
                nxt()
                v = -int(nxt())
                assert nxt() == ")"
                return v
            items = [app()]
            while peek() == ",":
                nxt()
                items.append(app())
            assert nxt() == ")", "expected )"
            return items[0] if len(items) == 1 else ("tuple",) + tuple(items)
        if t == "[":
            items = []
            if peek() == "]":
                nxt()
                return items
            items.append(app())
            while peek() == ";":
                nxt()
                items.append(app())
            assert nxt() == "]", "expected ]"
            return items
        if t == "-":
            return -int(nxt())
        if t.isdigit():
            return int(t)
        return (t,)

    def app():
        head = atom()
        args = []
        while peek() is not None and peek() not in (")", "]", ";", ","):
            args.append(atom())
        if not args:
            return head
        assert isinstance(head, tuple) and len(head) == 1, "application of a non-constructor"
        return (head[0],) + tuple(args)

    r = app()
    if pos[0] != len(toks):
        raise ValueError("trailing tokens in Coq output: %r" % toks[pos[0]:pos[0] + 5])
    return r


def _txt(t):
    if t == ("nil",):
        return ""
    return "".join(chr(c) for c in t)


def _opt(t):
    if t == ("None",):
        return None
    assert t[0] == "Some"
    return _txt(t[1])


def _bool(t):
    return t == ("true",)


def _kind(t):
    if t[0] == "KFString":
        return ("KFString", _opt(t[1]), _bool(t[2]))
    if t[0] == "KFComp":
        return ("KFComp", _opt(t[1]), _opt(t[2]), _bool(t[3]))
    return (t[0],)


def _lst(t):
    return [] if t == ("nil",) else t


def term_to_dump(t):
    """parsed Coq term of type value or model -> dump (models map to their inj image)"""
    k = t[0]
    k2 = {"MSym": "VSym", "MKw": "VKw", "MInt": "VInt", "MFloat": "VFloat", "MCpx": "VCpx", "MStr": "VStr",
          "MBytes": "VBytes", "MSeq": "VSeq"}.get(k, k)
    if k2 in ("VSym", "VKw", "PStr"):
        return (k2, _txt(t[1]))
    if k2 in ("VInt", "PInt", "VFloat", "PFloat", "POpaque"):
        return (k2, t[1])
    if k2 in ("VCpx", "PCpx"):
        return (k2, t[1], t[2])
    if k2 == "VStr":
        return (k2, _txt(t[1]), _opt(t[2]))
    if k2 in ("VBytes", "PBytes"):
        return (k2, tuple(_lst(t[1])))
    if k2 == "VSeq":
        return (k2, _kind(t[1]), tuple(term_to_dump(x) for x in _lst(t[2])))
    if k2 == "PBool":
        return (k2, _bool(t[1]))
    if k2 == "PNone":
        return (k2,)
    if k2 in ("PList", "PTuple"):
        return (k2, tuple(term_to_dump(x) for x in _lst(t[1])))
    raise ValueError("unexpected constructor %r" % (k,))


def term_to_res(t, conv=term_to_dump):
    """res A -> ('Ok', x) | ('Err', tag...)"""
    if t[0] == "Ok":
        return ("Ok", conv(t[1]))
    assert t[0] == "Err", t
    e = t[1]
    return ("Err",) + tuple(e)


# ------------------------------------------------------------------ the implementation side
def norm_of(sym):
    from hy.reader.mangling import mangle
    return mangle(sym).replace("_", "-")


def classify_exc(e):
    import hy.errors as HE
    from hy.errors import HyWrapperError
    msg = str(e)
    if isinstance(e, UserErr):
        return ("Err", "EUser", e.n)
    if isinstance(e, HE.HySyntaxError) and "`unpack-iterable` is not allowed here" in msg:
        return ("Err", "ESyntaxUnpack")
    if isinstance(e, HE.HyMacroExpansionError) and "expanding macro quasiquote" in msg:
        return ("Err", "EArity")
    if isinstance(e, HE.HyTypeError) and "needs 1 argument" in msg:
        return ("Err", "EArity")
    if isinstance(e, HyWrapperError):
        return ("Err", "EWrapper")
    if type(e) is TypeError and ("must be an iterable" in msg or "is not iterable" in msg):
        return ("Err", "ENotIterable")
    if type(e) is ValueError and "Syntactically illegal bracket string" in msg:
        return ("Err", "EValueBrackets")
    return ("Err", "OTHER", type(e).__name__, msg[:160])


def user_facing(e):
    import hy.errors as HE
    return isinstance(e, HE.HyLanguageError)


def run_quote_impl(root, m, table=None):
    """evaluate (root m) with the real compiler; user code is (g i) -> table[i].
    Returns (result tuple, trace, raw value or None, exception or None)."""
    import hy
    from hy import models as M
    trace = []

    def g(i):
        trace.append(int(i))
        v = table[int(i)]
        if isinstance(v, UserErr):
            raise v
        return v
    env = {"g": g}
    form = M.Expression([M.Symbol(root), m])
    try:
        r = hy.eval(form, env)
    except Exception as e:  # noqa
        return classify_exc(e), trace, None, e
    return ("Ok", dump(r)), trace, r, None


def real_render(m, level):
    """render_quoted_form of the implementation -> dump of the emitted form"""
    import types
    from hy.compiler import HyASTCompiler
    from hy.core.result_macros import render_quoted_form
    comp = HyASTCompiler(types.ModuleType("hyverif_quote"))
    try:
        f, sp = render_quoted_form(comp, m, level)
    except Exception as e:  # noqa
        import hy.errors as HE
        msg = str(e)
        if isinstance(e, HE.HySyntaxError) and "`unpack-iterable` is not allowed here" in msg:
            return ("Err", "ESyntaxUnpack")
        if isinstance(e, (HE.HyTypeError, TypeError)) and ("needs 1 argument" in msg or "not enough arguments for format string" in msg):
            return ("Err", "EArity")
        return ("Err", "OTHER", type(e).__name__, msg[:160])
    return ("Ok", (dump(f), bool(sp)))


# ------------------------------------------------------------------ generators
SPECIAL_SYMS = ["unquote", "unquote-splice", "quasiquote", "quote", "None", "True", "False", "unpack-iterable",
                "unpack-mapping", "hy", "or", ".", "unquote_splice", "\uff55nquote", "Unquote", "a", "b", "x", "foo-bar",
                "+", "setv", "hy.models.Symbol", "a.b", "...", "_", "*x*"]
WEIRD_SYMS = ["", "a b", "(", "1", "\"", "hy.models.X", "a]b", ":k", "\u00e9\u4e2d", "x\U0001F991"]
KW_NAMES = ["foo", "", "from_parser", "brackets", "is_tstring", "a-b", "x1", "\u00e9"]
WEIRD_KWS = ["a.b", "a b", "(", ":"]
TEXTS = ["", "a", "abc", "x y", "]", "]]", "]x]", "a]q]b", "{w}", ">{w}", "\"", "\\", "\n", "\nx", "\u00e9", "\u4e2d\U0001F991",
         "\x00", "'", "q", "==", "a]=]", "tab\there"]
BRACKETS = [None, None, None, "", "x", "q", "==", "f", "zz"]
CONVS = [None, None, "r", "s", "a", "z"]
FLOAT_BITS = [0, 1 << 63, 0x3ff0000000000000, 0xbff8000000000000, 0x7ff0000000000000, 0xfff0000000000000,
              0x7ff8000000000000, 0xfff8000000000000, 0x7ff8000000000123, 0x7ff0000000000001, 0xfff4000000000000,
              1, 0x000fffffffffffff, 0x7fefffffffffffff, 0x4059000000000000]


def gen_float_bits(rng):
    r = rng.random()
    if r < 0.5:
        return rng.choice(FLOAT_BITS)
    if r < 0.75:
        return fbits(rng.choice([0.5, -2.25, 1e10, 3.14, -1e-5]) * rng.choice([1, 3, 7]))
    return rng.getrandbits(64)


def ok_brackets(rng, content_strs):
    """a delimiter the constructors accept for these contents"""
    for _ in range(6):
        b = rng.choice(BRACKETS)
        if b is None or not any("]%s]" % b in s for s in content_strs):
            return b
    return None


class Gen:
    """random model trees built with the constructors of hy.models"""

    def __init__(self, rng, chk=None):
        self.rng = rng
        self.chk = chk
        from hy import models as M
        self.M = M
        self.syms = [s for s in SPECIAL_SYMS + WEIRD_SYMS if self._norm_ok(s)]

    @staticmethod
    def _norm_ok(s):
        try:
            norm_of(s)
            return True
        except Exception:  # noqa
            return False

    def symbol(self, pool=None):
        M, rng = self.M, self.rng
        s = rng.choice(pool or self.syms)
        try:
            return M.Symbol(s)
        except ValueError:
            return M.Symbol(s, from_parser=True)

    def keyword(self):
        M, rng = self.M, self.rng
        s = rng.choice(KW_NAMES + WEIRD_KWS) if rng.random() < 0.3 else rng.choice(KW_NAMES)
        try:
            return M.Keyword(s)
        except ValueError:
            return M.Keyword(s, from_parser=True)

    def integer(self):
        rng = self.rng
        r = rng.random()
        z = rng.choice([0, 1, -1, 2, 7, 255]) if r < 0.6 else (rng.getrandbits(70) - (1 << 69) if r < 0.8 else rng.randrange(-1000, 1000))
        return self.M.Integer(z)

    def float_(self):
        return self.M.Float(from_bits(gen_float_bits(self.rng)))

    def complex_(self, allow_negzero_imag=True):
        M, rng = self.M, self.rng
        if allow_negzero_imag and rng.random() < 0.25:
            # the reader's path: a literal whose imaginary part is -0.0
            return M.Complex(rng.choice(["1-0j", "-0j", "-0.0j", "0-0j", "-1.5-0j", "NaN-0j", "-0-0j", "Inf-0j"]))
        return M.Complex(complex(from_bits(gen_float_bits(rng)), from_bits(gen_float_bits(rng))))

    def string(self):
        M, rng = self.M, self.rng
        s = rng.choice(TEXTS) if rng.random() < 0.7 else "".join(rng.choice(TEXTS) for _ in range(rng.randrange(2, 4)))
        return M.String(s, brackets=ok_brackets(rng, [s]))

    def bytes_(self):
        rng = self.rng
        return self.M.Bytes(bytes(rng.randrange(256) for _ in range(rng.choice([0, 1, 1, 2, 5]))))

    def atom(self, cpx_negzero=True):
        r = self.rng.random()
        if r < 0.30:
            return self.symbol()
        if r < 0.42:
            return self.keyword()
        if r < 0.56:
            return self.integer()
        if r < 0.66:
            return self.float_()
        if r < 0.74:
            return self.complex_(cpx_negzero)
        if r < 0.92:
            return self.string()
        return self.bytes_()

    def strings_in(self, m):
        M = self.M
        if isinstance(m, M.String):
            return [str(m)]
        if isinstance(m, (M.FString, M.FComponent)):
            return [s for x in m for s in self.strings_in(x)]
        return []

    def fcomponent(self, depth, leaf):
        M, rng = self.M, self.rng
        n = rng.choice([0, 1, 1, 2, 3])
        items = []
        for i in range(n):
            if i == 0 or rng.random() < 0.3:
                items.append(self.tree(depth - 1, leaf))
            else:
                items.append(self.string() if rng.random() < 0.7 else self.fcomponent(depth - 1, leaf))
        return M.FComponent(items, conversion=rng.choice(CONVS),
                            expression=rng.choice([None, None, "x", "x ", "a + b", ""]),
                            is_tstring=rng.random() < 0.3)

    def fstring(self, depth, leaf):
        M, rng = self.M, self.rng
        n = rng.choice([0, 1, 2, 3, 4])
        items = []
        for _ in range(n):
            r = rng.random()
            if r < 0.45:
                items.append(self.string())
            elif r < 0.85:
                items.append(self.fcomponent(depth - 1, leaf))
            else:
                items.append(self.tree(depth - 1, leaf))
        strs = [s for x in items for s in self.strings_in(x)]
        # the constructor joins adjacent strings: check the delimiter against the joined text as well
        joined = []
        for x in items:
            if isinstance(x, M.String) and joined and joined[-1] is not None:
                joined[-1] += str(x)
            elif isinstance(x, M.String):
                joined.append(str(x))
            else:
                joined.append(None)
        strs += [j for j in joined if j is not None]
        return M.FString(items, brackets=ok_brackets(rng, strs), is_tstring=rng.random() < 0.3)

    def tree(self, depth, leaf=None):
        """leaf: optional callable producing special leaves (unquote forms) with some probability"""
        M, rng = self.M, self.rng
        if leaf is not None:
            x = leaf(depth)
            if x is not None:
                return x
        if depth <= 0 or rng.random() < 0.35:
            return self.atom()
        r = rng.random()
        if r < 0.12:
            return self.fstring(depth, leaf)
        if r < 0.20:
            return self.fcomponent(depth, leaf)
        cls = rng.choice([M.Expression, M.Expression, M.Expression, M.List, M.List, M.Tuple, M.Set, M.Dict])
        n = rng.choice([0, 1, 2, 2, 3, 3, 4, 5])
        items = [self.tree(depth - 1, leaf) for _ in range(n)]
        if cls is M.Expression and rng.random() < 0.25:
            items = [self.symbol(["unquote", "unquote-splice", "quasiquote", "quote", "unquote_splice", "\uff55nquote",
                                  "unpack-iterable", "or"])] + items[:rng.choice([0, 1, 1, 2])]
        return cls(items)


# texts for the reader
TEXT_ATOMS = ["foo", ":kw", ":", "1", "-2.5", "1e3", "NaN", "-Inf", "1-0j", "2+3j", "-0.0j", "0x1F", "1_000", "\"str\"", "\"a]b\"",
              "b\"by\"", "#[[br]]", "#[x[ a ]x]", "#[==[a]=]b]==]", "f\"a{x}b\"", "f\"{x !r:>{w}}\"", "#[f[{a}z]f]", "f\"\"",
              "'x", "`x", "~x", "~@x", "#* x", "#** x", "None", "True", "a.b", ".a", "...", "unquote", "(unquote)",
              "(unquote x y)", "(unquote-splice x)", "(quasiquote (unquote x))", "-0.0", "\"\\n\"", "#[[\nx]]", "hy.models.Symbol",
              "(. hy models Symbol)", "(or x [])", "#_ skipped foo", "f\"{(+ 1 2)}\"", "f\"{x = }\"", "f\"{{}}\"", "\"{\"",
              "\uff55nquote", "b\"\\xff\\x00\""]


def gen_text(rng, depth):
    if depth <= 0 or rng.random() < 0.4:
        return rng.choice(TEXT_ATOMS)
    op, cl = rng.choice([("(", ")"), ("(", ")"), ("[", "]"), ("#(", ")"), ("#{", "}"), ("{", "}")])
    n = rng.choice([0, 1, 2, 3, 4])
    return op + " ".join(gen_text(rng, depth - 1) for _ in range(n)) + cl


def collect_symbols(d, acc):
    if d[0] == "VSym":
        acc.add(d[1])
    elif d[0] == "VSeq":
        for x in d[2]:
            collect_symbols(x, acc)
    elif d[0] in ("PList", "PTuple"):
        for x in d[1]:
            collect_symbols(x, acc)


def norm_defs(symbols):
    """Gallina definition of the head-symbol normaliser on the symbols of this batch (taken from the real mangle)"""
    ents = []
    for s in sorted(symbols):
        try:
            n = norm_of(s)
        except Exception:  # noqa
            continue
        if n != s:
            ents.append("(%s, %s)" % (ctext(s), ctext(n)))
    return ("Definition NT : list (text * text) := %s.\n"
            "Fixpoint lookup_norm (tbl : list (text * text)) (s : text) : text :=\n"
            "  match tbl with [] => s | (k, v) :: r => if text_eqb k s then v else lookup_norm r s end.\n"
            "Definition normf (s : text) : text := lookup_norm NT s.\n"
            % clist(ents, "(text * text)"))


USER_DEFS = (
    "Fixpoint lookup_g (tbl : list (Z * res value)) (i : Z) : res value :=\n"
    "  match tbl with [] => Err EUnmodelled | (k, v) :: r => if Z.eqb k i then v else lookup_g r i end.\n"
    "Definition userf (tbl : list (Z * res value)) (m : model) (st : list Z) : res value * list Z :=\n"
    "  match m with\n"
    "  | MSeq KExpr [MSym [103%N]; MInt i] => (lookup_g tbl i, st ++ [i])\n"
    "  | _ => (Err EUnmodelled, st)\n"
    "  end.\n")
