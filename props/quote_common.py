"""Shared by C30/C31: canonical dumps of models / values, the line protocol of
the extracted model driver (extract/quote_driver.ml), generators of model
trees, texts and quasiquote templates, and the runner of the real quote /
quasiquote."""
import struct

from lib import vlib


# ------------------------------------------------------------------ dumps
KINDS = {"Expression": "KExpr", "List": "KList", "Tuple": "KTuple", "Set": "KSet", "Dict": "KDict"}


def fbits(x):
    return struct.unpack(">Q", struct.pack(">d", x))[0]


def from_bits(b):
    return struct.unpack(">d", struct.pack(">Q", b))[0]


class Opaque:
    """an object hy.as_model cannot represent; truthy, not iterable"""
    def __init__(self, n):
        self.n = n

    def __repr__(self):
        return "Opaque(%d)" % self.n


class UserErr(Exception):
    def __init__(self, n):
        super().__init__(n)
        self.n = n


def dump(v):
    """canonical, hashable description of a run-time value (models with any children, plain Python values)"""
    from hy import models as M
    t = type(v)
    if t is M.Symbol:
        return ("VSym", str(v))
    if t is M.Keyword:
        return ("VKw", v.name)
    if t is M.Integer:
        return ("VInt", int(v))
    if t is M.Float:
        return ("VFloat", fbits(float(v)))
    if t is M.Complex:
        return ("VCpx", fbits(v.real), fbits(v.imag))
    if t is M.String:
        return ("VStr", str(v), v.brackets)
    if t is M.Bytes:
        return ("VBytes", tuple(bytes(v)))
    if t is M.FString:
        return ("VSeq", ("KFString", v.brackets, v.is_tstring), tuple(dump(x) for x in v))
    if t is M.FComponent:
        return ("VSeq", ("KFComp", v.conversion, v.expression, v.is_tstring), tuple(dump(x) for x in v))
    if t.__name__ in KINDS and t is getattr(M, t.__name__):
        return ("VSeq", (KINDS[t.__name__],), tuple(dump(x) for x in v))
    if t is bool:
        return ("PBool", v)
    if t is int:
        return ("PInt", v)
    if t is float:
        return ("PFloat", fbits(v))
    if t is complex:
        return ("PCpx", fbits(v.real), fbits(v.imag))
    if t is str:
        return ("PStr", v)
    if t is bytes:
        return ("PBytes", tuple(v))
    if v is None:
        return ("PNone",)
    if t is list:
        return ("PList", tuple(dump(x) for x in v))
    if t is tuple:
        return ("PTuple", tuple(dump(x) for x in v))
    if t is set:
        return ("PSet", tuple(dump(x) for x in v))           # in this object's iteration order
    if t is dict:
        return ("PDict", tuple(dump(x) for kv in v.items() for x in kv))
    if t is Opaque:
        return ("POpaque", v.n)
    return ("OTHER", t.__name__, repr(v)[:80])


def is_pure_model(d):
    if d[0] == "VSeq":
        return all(is_pure_model(x) for x in d[2])
    return d[0].startswith("V")


def count_nodes(d):
    if d[0] in ("VSeq",):
        return 1 + sum(count_nodes(x) for x in d[2])
    if d[0] in ("PList", "PTuple", "PSet", "PDict"):
        return 1 + sum(count_nodes(x) for x in d[1])
    return 1


def classes_in(d, acc=None):
    acc = set() if acc is None else acc
    if d[0] == "VSeq":
        acc.add(d[1][0])
        for x in d[2]:
            classes_in(x, acc)
    else:
        acc.add(d[0])
        if d[0] in ("PList", "PTuple", "PSet", "PDict"):
            for x in d[1]:
                classes_in(x, acc)
    return acc


# ------------------------------------------------------------------ the extracted model (tie T3)
def build_driver():
    import os
    ok, log = vlib.coq_build(["Quote/Extract.vo"])
    if not ok:
        raise RuntimeError("extraction failed: " + log[-2000:])
    ex = os.path.join(vlib.VERIF, "extract")
    return vlib.build_ocaml("quote", [os.path.join(ex, "quote_model.mli"), os.path.join(ex, "quote_model.ml"),
                                      os.path.join(ex, "quote_driver.ml")], "hymodel_quote")


def _b(n):
    return ("-" if n < 0 else "") + bin(abs(n))[2:]


def e_text(s, out):
    out.append(str(len(s)))
    out.extend(str(ord(c)) for c in s)


def e_opt(o, out):
    if o is None:
        out.append("-")
    else:
        out.append("+")
        e_text(o, out)


def e_kind(k, out):
    t = k[0]
    if t == "KFString":
        out.append("FS")
        e_opt(k[1], out)
        out.append("1" if k[2] else "0")
    elif t == "KFComp":
        out.append("FC")
        e_opt(k[1], out)
        e_opt(k[2], out)
        out.append("1" if k[3] else "0")
    else:
        out.append({"KExpr": "E", "KList": "L", "KTuple": "U", "KSet": "X", "KDict": "D"}[t])


def e_value(d, out):
    """token encoding of a dump (a pure-model dump is also the encoding of the model)"""
    k = d[0]
    if k in ("VSym", "VKw"):
        out.append("S" if k == "VSym" else "K")
        e_text(d[1], out)
    elif k in ("VInt", "PInt"):
        out.extend(["I" if k == "VInt" else "pi", _b(d[1])])
    elif k in ("VFloat", "PFloat"):
        out.extend(["F" if k == "VFloat" else "pf", _b(d[1])])
    elif k in ("VCpx", "PCpx"):
        out.extend(["C" if k == "VCpx" else "pc", _b(d[1]), _b(d[2])])
    elif k == "VStr":
        out.append("T")
        e_text(d[1], out)
        e_opt(d[2], out)
    elif k in ("VBytes", "PBytes"):
        out.append("B" if k == "VBytes" else "pb")
        out.append(str(len(d[1])))
        out.extend(str(x) for x in d[1])
    elif k == "VSeq":
        out.append("Q")
        e_kind(d[1], out)
        out.append(str(len(d[2])))
        for x in d[2]:
            e_value(x, out)
    elif k == "PStr":
        out.append("ps")
        e_text(d[1], out)
    elif k == "PBool":
        out.extend(["pB", "1" if d[1] else "0"])
    elif k == "PNone":
        out.append("pN")
    elif k in ("PList", "PTuple", "PSet", "PDict"):
        out.append({"PList": "pl", "PTuple": "pt", "PSet": "pS", "PDict": "pD"}[k])
        out.append(str(len(d[1])))
        for x in d[1]:
            e_value(x, out)
    elif k == "POpaque":
        out.extend(["po", _b(d[1])])
    else:
        raise ValueError("no encoding for %r" % (d,))


class _Dec:
    def __init__(self, line):
        self.t = line.split()
        self.i = 0

    def nxt(self):
        x = self.t[self.i]
        self.i += 1
        return x

    def int_(self):
        return int(self.nxt())

    def bin_(self):
        x = self.nxt()
        return -int(x[1:], 2) if x[0] == "-" else int(x, 2)

    def text(self):
        n = self.int_()
        return "".join(chr(self.int_()) for _ in range(n))

    def opt(self):
        return None if self.nxt() == "-" else self.text()

    def bool_(self):
        return self.nxt() == "1"

    def kind(self):
        t = self.nxt()
        if t == "FS":
            return ("KFString", self.opt(), self.bool_())
        if t == "FC":
            return ("KFComp", self.opt(), self.opt(), self.bool_())
        return ({"E": "KExpr", "L": "KList", "U": "KTuple", "X": "KSet", "D": "KDict"}[t],)

    def value(self):
        t = self.nxt()
        if t == "S":
            return ("VSym", self.text())
        if t == "K":
            return ("VKw", self.text())
        if t == "I":
            return ("VInt", self.bin_())
        if t == "F":
            return ("VFloat", self.bin_())
        if t == "C":
            return ("VCpx", self.bin_(), self.bin_())
        if t == "T":
            return ("VStr", self.text(), self.opt())
        if t == "B":
            n = self.int_()
            return ("VBytes", tuple(self.int_() for _ in range(n)))
        if t == "Q":
            k = self.kind()
            n = self.int_()
            return ("VSeq", k, tuple(self.value() for _ in range(n)))
        if t == "pi":
            return ("PInt", self.bin_())
        if t == "pf":
            return ("PFloat", self.bin_())
        if t == "pc":
            return ("PCpx", self.bin_(), self.bin_())
        if t == "ps":
            return ("PStr", self.text())
        if t == "pb":
            n = self.int_()
            return ("PBytes", tuple(self.int_() for _ in range(n)))
        if t == "pB":
            return ("PBool", self.bool_())
        if t == "pN":
            return ("PNone",)
        if t in ("pl", "pt", "pS", "pD"):
            n = self.int_()
            return ({"pl": "PList", "pt": "PTuple", "pS": "PSet", "pD": "PDict"}[t], tuple(self.value() for _ in range(n)))
        if t == "po":
            return ("POpaque", self.bin_())
        raise ValueError("bad tag from the model driver: %r" % t)

    def res(self, f):
        t = self.nxt()
        if t == "ok":
            return ("Ok", f())
        e = self.nxt()
        if e == "EUser":
            return ("Err", "EUser", self.bin_())
        return ("Err", e)

    def run(self):
        r = self.res(self.value)
        n = self.int_()
        return (r, [self.bin_() for _ in range(n)])

    def render(self):
        return self.res(lambda: (self.value(), self.bool_()))

    def done(self):
        assert self.i == len(self.t), "trailing output from the model driver"


def encode_case(cmd, norm_tbl, gtbl, d):
    """norm_tbl: {sym: normalised}; gtbl: {i: ('R', n) | ('V', dump)}; d: dump of the model"""
    out = [cmd, str(len(norm_tbl))]
    for k in sorted(norm_tbl):
        e_text(k, out)
        e_text(norm_tbl[k], out)
    out.append(str(len(gtbl)))
    for i in sorted(gtbl):
        out.append(_b(i))
        kind, x = gtbl[i]
        if kind == "R":
            out.extend(["R", _b(x)])
        else:
            out.append("V")
            e_value(x, out)
    e_value(d, out)
    return " ".join(out)


def run_model(binary, lines):
    import subprocess
    p = subprocess.run([binary], input="\n".join(lines) + "\n", capture_output=True, text=True, timeout=3600)
    if p.returncode != 0:
        raise RuntimeError("quote model driver failed: " + p.stderr[-1000:])
    outs = p.stdout.splitlines()
    if len(outs) != len(lines):
        raise RuntimeError("quote model driver: %d results for %d cases" % (len(outs), len(lines)))
    return outs


def decode_quote(line):
    d = _Dec(line)
    r = {"wf_ctor": d.bool_(), "wf": d.bool_(), "render": d.render(), "run": d.run()}
    d.done()
    return r


def decode_qq(line):
    d = _Dec(line)
    r = {"wf_ctor": d.bool_(), "wf": d.bool_(), "valid": d.bool_(), "rejected": d.bool_(), "top_splice": d.bool_(),
         "render": d.render(), "run": d.run(), "ref": d.run(), "ref_p": d.run()}
    r["as_model"] = d.res(d.value) if d.nxt() == "some" else None
    d.done()
    return r


def norm_table(symbols):
    """the head-symbol normaliser on the symbols of a case, taken from the real mangle"""
    tbl = {}
    for s in symbols:
        try:
            n = norm_of(s)
        except Exception:  # noqa
            continue
        if n != s:
            tbl[s] = n
    return tbl


# ------------------------------------------------------------------ the implementation side
def norm_of(sym):
    from hy.reader.mangling import mangle
    return mangle(sym).replace("_", "-")


def classify_exc(e):
    import hy.errors as HE
    from hy.errors import HyWrapperError
    msg = str(e)
    if isinstance(e, UserErr):
        return ("Err", "EUser", e.n)
    if isinstance(e, HE.HySyntaxError) and "`unpack-iterable` is not allowed here" in msg:
        return ("Err", "ESyntaxUnpack")
    if isinstance(e, HE.HyMacroExpansionError) and "expanding macro quasiquote" in msg:
        return ("Err", "EArity")
    if isinstance(e, HE.HyTypeError) and "needs 1 argument" in msg:
        return ("Err", "EArity")
    if isinstance(e, HyWrapperError):
        return ("Err", "EWrapper")
    if type(e) is TypeError and ("must be an iterable" in msg or "is not iterable" in msg):
        return ("Err", "ENotIterable")
    if type(e) is ValueError and "Syntactically illegal bracket string" in msg:
        return ("Err", "EValueBrackets")
    return ("Err", "OTHER", type(e).__name__, msg[:160])


def user_facing(e):
    import hy.errors as HE
    return isinstance(e, HE.HyLanguageError)


def run_quote_impl(root, m, table=None):
    """evaluate (root m) with the real compiler; user code is (g i) -> table[i].
    Returns (result tuple, trace, raw value or None, exception or None)."""
    import hy
    from hy import models as M
    trace = []

    def g(i):
        trace.append(int(i))
        v = table[int(i)]
        if isinstance(v, UserErr):
            raise v
        return v
    env = {"g": g}
    form = M.Expression([M.Symbol(root), m])
    try:
        r = hy.eval(form, env)
    except Exception as e:  # noqa
        return classify_exc(e), trace, None, e
    return ("Ok", dump(r)), trace, r, None


def real_render(m, level):
    """render_quoted_form of the implementation -> dump of the emitted form"""
    import types
    from hy.compiler import HyASTCompiler
    from hy.core.result_macros import render_quoted_form
    comp = HyASTCompiler(types.ModuleType("hyverif_quote"))
    try:
        f, sp = render_quoted_form(comp, m, level)
    except Exception as e:  # noqa
        import hy.errors as HE
        msg = str(e)
        if isinstance(e, HE.HySyntaxError) and "`unpack-iterable` is not allowed here" in msg:
            return ("Err", "ESyntaxUnpack")
        if isinstance(e, (HE.HyTypeError, TypeError)) and ("needs 1 argument" in msg or "not enough arguments for format string" in msg):
            return ("Err", "EArity")
        return ("Err", "OTHER", type(e).__name__, msg[:160])
    return ("Ok", (dump(f), bool(sp)))


# ------------------------------------------------------------------ generators
SPECIAL_SYMS = ["unquote", "unquote-splice", "quasiquote", "quote", "None", "True", "False", "unpack-iterable",
                "unpack-mapping", "hy", "or", ".", "unquote_splice", "\uff55nquote", "Unquote", "a", "b", "x", "foo-bar",
                "+", "setv", "hy.models.Symbol", "a.b", "...", "_", "*x*"]
WEIRD_SYMS = ["", "a b", "(", "1", "\"", "hy.models.X", "a]b", ":k", "\u00e9\u4e2d", "x\U0001F991"]
KW_NAMES = ["foo", "", "from_parser", "brackets", "is_tstring", "a-b", "x1", "\u00e9"]
WEIRD_KWS = ["a.b", "a b", "(", ":"]
TEXTS = ["", "a", "abc", "x y", "]", "]]", "]x]", "a]q]b", "{w}", ">{w}", "\"", "\\", "\n", "\nx", "\u00e9", "\u4e2d\U0001F991",
         "\x00", "'", "q", "==", "a]=]", "tab\there"]
# fragments of the code's own literals and of bracket-string syntax, to assemble adversarial strings from
FRAGMENTS = ["]None]", "None", "]", "[[", "]]", "#[", "[", "]=]", "]f]", "]x]", "True", "False", "]]None]]", "brackets", "{", "}",
             "\\", "]None", "None]", "#[[", "]q]", "is_tstring", "from_parser", "hy.models.String", "\"", "'", ":", "~", "`"]


def adversarial_string(rng):
    return "".join(rng.choice(FRAGMENTS) for _ in range(rng.choice([1, 1, 2, 3, 4])))


BRACKETS = [None, None, None, "", "x", "q", "==", "f", "zz", "None"]
CONVS = [None, None, "r", "s", "a", "z"]
FLOAT_BITS = [0, 1 << 63, 0x3ff0000000000000, 0xbff8000000000000, 0x7ff0000000000000, 0xfff0000000000000,
              0x7ff8000000000000, 0xfff8000000000000, 0x7ff8000000000123, 0x7ff0000000000001, 0xfff4000000000000,
              1, 0x000fffffffffffff, 0x7fefffffffffffff, 0x4059000000000000]


def gen_float_bits(rng):
    r = rng.random()
    if r < 0.5:
        return rng.choice(FLOAT_BITS)
    if r < 0.75:
        return fbits(rng.choice([0.5, -2.25, 1e10, 3.14, -1e-5]) * rng.choice([1, 3, 7]))
    return rng.getrandbits(64)


def ok_brackets(rng, content_strs):
    """a delimiter the constructors accept for these contents"""
    for _ in range(6):
        b = rng.choice(BRACKETS)
        if b is None or not any("]%s]" % b in s for s in content_strs):
            return b
    return None


class Gen:
    """random model trees built with the constructors of hy.models"""

    def __init__(self, rng, chk=None, template_mode=False):
        """template_mode: never emit a symbol that normalises to unquote / unquote-splice / quasiquote
        (in a template those forms come from the caller's leaf callback only, with controlled arguments)"""
        self.rng = rng
        self.chk = chk
        from hy import models as M
        self.M = M
        self.template_mode = template_mode
        self.syms = [s for s in SPECIAL_SYMS + WEIRD_SYMS if self._norm_ok(s)]
        if template_mode:
            self.syms = [s for s in self.syms if norm_of(s) not in ("unquote", "unquote-splice", "quasiquote")]

    @staticmethod
    def _norm_ok(s):
        try:
            norm_of(s)
            return True
        except Exception:  # noqa
            return False

    def symbol(self, pool=None):
        M, rng = self.M, self.rng
        s = rng.choice(pool or self.syms)
        try:
            return M.Symbol(s)
        except ValueError:
            return M.Symbol(s, from_parser=True)

    def keyword(self):
        M, rng = self.M, self.rng
        s = rng.choice(KW_NAMES + WEIRD_KWS) if rng.random() < 0.3 else rng.choice(KW_NAMES)
        try:
            return M.Keyword(s)
        except ValueError:
            return M.Keyword(s, from_parser=True)

    def integer(self):
        rng = self.rng
        r = rng.random()
        z = rng.choice([0, 1, -1, 2, 7, 255]) if r < 0.6 else (rng.getrandbits(70) - (1 << 69) if r < 0.8 else rng.randrange(-1000, 1000))
        return self.M.Integer(z)

    def float_(self):
        return self.M.Float(from_bits(gen_float_bits(self.rng)))

    def complex_(self, allow_negzero_imag=True):
        M, rng = self.M, self.rng
        if allow_negzero_imag and rng.random() < 0.25:
            # the reader's path: a literal whose imaginary part is -0.0
            return M.Complex(rng.choice(["1-0j", "-0j", "-0.0j", "0-0j", "-1.5-0j", "NaN-0j", "-0-0j", "Inf-0j"]))
        return M.Complex(complex(from_bits(gen_float_bits(rng)), from_bits(gen_float_bits(rng))))

    def string(self):
        M, rng = self.M, self.rng
        r = rng.random()
        s = (rng.choice(TEXTS) if r < 0.55 else adversarial_string(rng) if r < 0.8
             else "".join(rng.choice(TEXTS) for _ in range(rng.randrange(2, 4))))
        return M.String(s, brackets=ok_brackets(rng, [s]))

    def bytes_(self):
        rng = self.rng
        return self.M.Bytes(bytes(rng.randrange(256) for _ in range(rng.choice([0, 1, 1, 2, 5]))))

    def atom(self, cpx_negzero=True):
        r = self.rng.random()
        if r < 0.30:
            return self.symbol()
        if r < 0.42:
            return self.keyword()
        if r < 0.56:
            return self.integer()
        if r < 0.66:
            return self.float_()
        if r < 0.74:
            return self.complex_(cpx_negzero)
        if r < 0.92:
            return self.string()
        return self.bytes_()

    def strings_in(self, m):
        M = self.M
        if isinstance(m, M.String):
            return [str(m)]
        if isinstance(m, (M.FString, M.FComponent)):
            return [s for x in m for s in self.strings_in(x)]
        return []

    def fcomponent(self, depth, leaf):
        M, rng = self.M, self.rng
        n = rng.choice([0, 1, 1, 2, 3])
        items = []
        for i in range(n):
            if i == 0 or rng.random() < 0.3:
                items.append(self.tree(depth - 1, leaf))
            else:
                items.append(self.string() if rng.random() < 0.7 else self.fcomponent(depth - 1, leaf))
        return M.FComponent(items, conversion=rng.choice(CONVS),
                            expression=rng.choice([None, None, "x", "x ", "a + b", ""]),
                            is_tstring=rng.random() < 0.3)

    def fstring(self, depth, leaf):
        M, rng = self.M, self.rng
        n = rng.choice([0, 1, 2, 3, 4])
        items = []
        for _ in range(n):
            r = rng.random()
            if r < 0.45:
                items.append(self.string())
            elif r < 0.85:
                items.append(self.fcomponent(depth - 1, leaf))
            else:
                items.append(self.tree(depth - 1, leaf))
        strs = [s for x in items for s in self.strings_in(x)]
        # the constructor joins adjacent strings: check the delimiter against the joined text as well
        joined = []
        for x in items:
            if isinstance(x, M.String) and joined and joined[-1] is not None:
                joined[-1] += str(x)
            elif isinstance(x, M.String):
                joined.append(str(x))
            else:
                joined.append(None)
        strs += [j for j in joined if j is not None]
        return M.FString(items, brackets=ok_brackets(rng, strs), is_tstring=rng.random() < 0.3)

    def tree(self, depth, leaf=None):
        """leaf: optional callable producing special leaves (unquote forms) with some probability"""
        M, rng = self.M, self.rng
        if leaf is not None:
            x = leaf(depth)
            if x is not None:
                return x
        if depth <= 0 or rng.random() < 0.35:
            return self.atom()
        r = rng.random()
        if r < 0.12:
            return self.fstring(depth, leaf)
        if r < 0.20:
            return self.fcomponent(depth, leaf)
        cls = rng.choice([M.Expression, M.Expression, M.Expression, M.List, M.List, M.Tuple, M.Set, M.Dict])
        n = rng.choice([0, 1, 2, 2, 3, 3, 4, 5])
        items = [self.tree(depth - 1, leaf) for _ in range(n)]
        if cls is M.Expression and rng.random() < 0.25:
            heads = (["quote", "unpack-iterable", "or", "unpack-mapping", "hy"] if self.template_mode else
                     ["unquote", "unquote-splice", "quasiquote", "quote", "unquote_splice", "\uff55nquote",
                      "unpack-iterable", "or"])
            items = [self.symbol(heads)] + items[:rng.choice([0, 1, 1, 2])]
        return cls(items)


# texts for the reader
TEXT_ATOMS = ["foo", ":kw", ":", "1", "-2.5", "1e3", "NaN", "-Inf", "1-0j", "2+3j", "-0.0j", "0x1F", "1_000", "\"str\"", "\"a]b\"",
              "b\"by\"", "#[[br]]", "#[x[ a ]x]", "#[==[a]=]b]==]", "f\"a{x}b\"", "f\"{x !r:>{w}}\"", "#[f[{a}z]f]", "f\"\"",
              "'x", "`x", "~x", "~@x", "#* x", "#** x", "None", "True", "a.b", ".a", "...", "unquote", "(unquote)",
              "(unquote x y)", "(unquote-splice x)", "(quasiquote (unquote x))", "-0.0", "\"\\n\"", "#[[\nx]]", "hy.models.Symbol",
              "(. hy models Symbol)", "(or x [])", "#_ skipped foo", "f\"{(+ 1 2)}\"", "f\"{x = }\"", "f\"{{}}\"", "\"{\"",
              "\uff55nquote", "b\"\\xff\\x00\""]


def gen_text(rng, depth):
    if depth <= 0 or rng.random() < 0.4:
        return rng.choice(TEXT_ATOMS)
    op, cl = rng.choice([("(", ")"), ("(", ")"), ("[", "]"), ("#(", ")"), ("#{", "}"), ("{", "}")])
    n = rng.choice([0, 1, 2, 3, 4])
    return op + " ".join(gen_text(rng, depth - 1) for _ in range(n)) + cl


def collect_symbols(d, acc):
    if d[0] == "VSym":
        acc.add(d[1])
    elif d[0] == "VSeq":
        for x in d[2]:
            collect_symbols(x, acc)
    elif d[0] in ("PList", "PTuple", "PSet", "PDict"):
        for x in d[1]:
            collect_symbols(x, acc)


# ------------------------------------------------------------------ C29: rebuilding values, canonical comparison
def undump(d):
    """the value a dump describes (inverse of dump on values; tuples may arrive as lists after JSON)"""
    from hy import models as M
    k = d[0]
    if k == "VSym":
        try:
            return M.Symbol(d[1])
        except ValueError:
            return M.Symbol(d[1], from_parser=True)
    if k == "VKw":
        return M.Keyword(d[1], from_parser=True)
    if k == "VInt":
        return M.Integer(d[1])
    if k == "VFloat":
        return M.Float(from_bits(d[1]))
    if k == "VCpx":
        x = M.Complex(complex(from_bits(d[1]), 0.0))
        # rebuild the exact bits of the imaginary part (Complex(...) itself adds 0 + imag)
        return complex.__new__(M.Complex, from_bits(d[1]), from_bits(d[2]))
    if k == "VStr":
        return M.String(d[1], brackets=d[2])
    if k == "VBytes":
        return M.Bytes(bytes(d[1]))
    if k == "VSeq":
        kind = d[1]
        items = [undump(x) for x in d[2]]
        if kind[0] == "KFString":
            return M.FString(items, brackets=kind[1], is_tstring=kind[2])
        if kind[0] == "KFComp":
            return M.FComponent(items, conversion=kind[1], expression=kind[2], is_tstring=kind[3])
        cls = {v: k2 for k2, v in KINDS.items()}[kind[0]]
        return getattr(M, cls)(items)
    if k == "PInt":
        return d[1]
    if k == "PFloat":
        return from_bits(d[1])
    if k == "PCpx":
        return complex(from_bits(d[1]), from_bits(d[2]))
    if k == "PStr":
        return d[1]
    if k == "PBytes":
        return bytes(d[1])
    if k == "PBool":
        return bool(d[1])
    if k == "PNone":
        return None
    if k == "PList":
        return [undump(x) for x in d[1]]
    if k == "PTuple":
        return tuple(undump(x) for x in d[1])
    if k == "PSet":
        return {undump(x) for x in d[1]}
    if k == "PDict":
        it = [undump(x) for x in d[1]]
        return {it[i]: it[i + 1] for i in range(0, len(it), 2)}
    if k == "POpaque":
        return Opaque(d[1])
    raise ValueError("cannot rebuild %r" % (d,))


def tup(d):
    """lists (after JSON) back to tuples"""
    return tuple(tup(x) for x in d) if isinstance(d, (list, tuple)) else d


def canon(d, set_models=False):
    """dump with sets and dicts put in a canonical order (Python's own equality ignores their order);
    set_models: also order the children of Set models (the promotion of a set lists its members in hash order,
    which differs from one interpreter to the next)"""
    k = d[0]
    if k == "VSeq":
        ch = tuple(canon(x, set_models) for x in d[2])
        if set_models and d[1][0] == "KSet":
            ch = tuple(sorted(ch, key=repr))
        return ("VSeq", tuple(d[1]), ch)
    if k in ("PList", "PTuple"):
        return (k, tuple(canon(x, set_models) for x in d[1]))
    if k == "PSet":
        return (k, tuple(sorted((canon(x, set_models) for x in d[1]), key=repr)))
    if k == "PDict":
        it = [canon(x, set_models) for x in d[1]]
        pairs = sorted(((it[i], it[i + 1]) for i in range(0, len(it), 2)), key=lambda p: repr(p[0]))
        return (k, tuple(x for p in pairs for x in p))
    return d


def add0_bits(b):
    e, mant = (b >> 52) & 2047, b & ((1 << 52) - 1)
    if b == 1 << 63:
        return 0
    if e == 2047 and mant != 0 and mant < (1 << 51):
        return b | (1 << 51)
    return b


def cnorm(d):
    """what comes back for a plain value: Complex(x) makes the imaginary part 0 + im"""
    k = d[0]
    if k == "PCpx":
        return (k, d[1], add0_bits(d[2]))
    if k in ("PList", "PTuple", "PSet", "PDict"):
        return (k, tuple(cnorm(x) for x in d[1]))
    return d
