"""C10 -- Compilation yields a valid Python AST or a user-facing Hy error."""
import multiprocessing as mp
import re
import sys

from lib import vlib
from props import valid_common as vc
from props import valid_gen, valid_oracle
from translator import valid_patterns

META = {
    "technique": "Coq: deep embedding of the funcparserlib/model_patterns combinators with greedy ordered-choice semantics, "
                 "the closed @pattern_macro grammars regenerated from the source (fail-closed), termination and outcome "
                 "theorems for them, a model of the expression-level handlers with a PyAST_Validate-style validator; "
                 "differential runs of the combinator model against the live parsers and of the handler model against "
                 "hy_compile; random model trees over all core heads classified by what hy_compile+compile()+marshal raise",
    "level_text": "Theorems (coq/Props/C10.v): every regenerated closed grammar (31 decorators, 75 heads) terminates on every "
                  "argument list with a parse tree or a syntax error whose index lies inside the form "
                  "(C10_pattern_macro_outcome), operator macros accept exactly their arity range (C10_flat_arity); over the "
                  "modelled expression heads every tree compiles to an AST the structural validator accepts or to a "
                  "user-facing error, given no mis-aligned dict unpacking / bare unpack-mapping / unpaired chainc (C10_compile_outcome_classes_partial), and "
                  "the faithful model is refuted on those shapes (C10_refuted_*: concrete witnesses, replayed on the real "
                  "compiler = recorded findings). Each run compares the combinator model with the live funcparserlib "
                  "parsers (acceptance, tree shape, error index) and classifies tens of thousands of random model trees "
                  "over all 98 core heads.",
    "level_note": "Partial: heads with structured grammars (setv let for-family with match fn defn defclass import require "
                  ". deftype) and all statement-producing handlers are covered by the oracle only; CPython's validator and "
                  "marshal are modelled (Valid/Validate.v) for the expression fragment only. Trusted: Coq kernel, "
                  "translator/valid_patterns.py, harness; combinator and handler models are hand-written and tied by "
                  "differential execution.",
}

TRUSTED = [
    "Coq 8.16.1 kernel (coqc, full .vo); vm_compute for the obligations over Gen/Patterns.v",
    "axioms: none",
    "translator/valid_patterns.py (closed pattern sub-language -> Valid.Comb.pat terms, fail-closed for the operator macros)",
    "hand-written combinator semantics Valid/Comb.v: tied on every run by running the live parser object of every "
    "translated decorator and the model on the same generated argument lists (parse tree shape and error index)",
    "hand-written handler model Valid/Compile.v and validator Valid/Validate.v (expression fragment): tied by comparing "
    "the model's AST with hy_compile's on generated trees, and the validator's verdict with compile()'s",
    "CPython's compile()/marshal as the judge of the produced AST",
]

# ------------------------------------------------------------------ known defect classes of the unchanged tree
# (id, regex on the failure key `stage:ExceptionClass:normalised message`, structural feature the shrunk input must have, text)
FINDINGS = [
    ("C10-dict-unpack-in-value-position", r"^compile:ValueError:None disallowed in expression list$", "dict_unpack_misaligned",
     "{x #** y z}: a #** form at an odd position of a dict literal puts the None marker into `values`; compile() raises ValueError"),
    ("C10-augassign-sequence-target", r"^compile:SystemError:invalid node type \(N\) for augmented assignment$", "aug_bad_target",
     "(+= [] x), (//= #* x 7): _storeize accepts a list/tuple/starred target for an augmented assignment; compile() raises SystemError"),
    ("C10-import-empty-names", r"^compile:ValueError:empty names on ImportFrom$", "import_empty_list",
     "(import m []) compiles to ImportFrom(names=[]); compile() raises ValueError"),
    ("C10-annotate-non-name", r"^compile:SystemError:invalid node type \(N\) for annotated assignment$", "annotate_bad_target",
     "(annotate [] x), (setv #^ int [a b] 1): AnnAssign with a list/tuple target; compile() raises SystemError"),
    ("C10-position-from-empty-result", r"^compile:ValueError:invalid integer value: None$", "has_empty_form",
     "(for [x (do)] 1), (for [[a b] (pragma)]): compile_comprehension positions the For node by the Result of the iterable "
     "(asty.For(v[1], ...)); a form that compiles to nothing gives an empty Result whose lineno is None; compile() raises "
     "ValueError (the other uses of a value-less form were fixed by 4ee8730)"),
    ("C10-empty-body", r"^compile:ValueError:empty body on \w+$", "has_empty_form",
     "(for [x y] (require)): body forms that compile to no statements leave For/AsyncFor/If with an empty statement list; "
     "compile() raises ValueError (the try/finally case was fixed by c90ef71)"),
    ("C10-toplevel-nonlocal-list", r"^compile:TypeError:required field \"lineno\" missing from stmt$", "has_nonlocal",
     "(+= c (nonlocal c)): ResolveOuterVars.visit_OuterVar returns a list, which hy_compile places into the module body "
     "when the nonlocal form sits in the top-level statement list; compile() raises TypeError"),
    ("C10-constant-name-identifier", r"^compile:ValueError:identifier field can'_'(None|True|False)' constant$",
     "constant_name_in_deftype_or_pattern",
     "(deftype None 1), (defclass :tp [None] C), (defn :tp [#* True] f [] 1), (match x \uff2eone y), (match x [#* None] y): a name "
     "that is or NFKC-normalises to None/True/False reaches an identifier field -- the name of a deftype, a type-parameter "
     "name of :tp (TypeVar / TypeVarTuple / ParamSpec in digest_type_params), a binding position of a match pattern, or any "
     "target whose text only normalises to the constant (_nonconst tests the unmangled text; deftype and digest_type_params "
     "have no _nonconst); compile() raises ValueError"),
    ("C10-match-class-head", r"^compile:ValueError:MatchClass cls field can only contain Name or Attribute nodes\.$", "class_pattern_head",
     "(match x ((. None)) y), (match x (f (False)) y): a class pattern whose head compiles to a constant; compile() raises ValueError"),
    ("C10-mapping-pattern-in-comprehension", r"^compile:ValueError:field '_' is required for Name$", "mapping_pattern_in_comprehension",
     "(lfor x y (match x {1 _} 1)): a mapping pattern without #** rest inside a comprehension registers the name None as an "
     "assignment of the generator scope; a Name(id=None) is emitted; compile() raises ValueError"),
]


FIXED = [
    ("C10-form-without-expression", "4ee8730", "a statement-only or empty form as f-string value, comprehension iterable/condition/element or match "
     "guard: the handler stored Result.expr (None) (ValueError from compile()); now force_expr"),
    ("C10-bare-except-star-crash", "c7c0bc3", "(try ... (except* [] ...)): TryStar with a handler without type; evaluated at compile time it killed the compiler process"),
    ("C10-falsy-literal-truth-test", "f69d795", "(defclass :tp [#^ 0 T] C): a falsy type-parameter bound reached the AST uncompiled (TypeError from compile())"),
    ("C10-matchor-short", "61b21a1", "(match x (|) y): MatchOr with fewer than two alternatives (ValueError from compile()); now a syntax error"),
    ("C10-match-value-bare-dot", "d2a83e6", "(match x (. y) z): MatchValue(Name) (ValueError from compile()); now a syntax error"),
    ("C10-match-as-wildcard", "8cfcf87", "(match x 1 :as _ 2): MatchAs(pattern, name='_') (ValueError from compile()); now a syntax error"),
    ("C10-bare-unpack-mapping", "b5377ba", "[(unpack-mapping)]: IndexError in _compile_collect -> HyCompileError; now a syntax error"),
    ("C10-finally-without-statements", "c90ef71", "(try 1 (finally (do))): Try with empty finalbody (ValueError from compile()); now `pass`"),
    ("C10-chainc-no-pairs", "aeaad9f", "(chainc x) compiled to Compare(ops=[], comparators=[]) (ValueError from compile()); the grammar now needs a pair"),
    ("C10-assert-falsy-message", "50b6a93", "(assert x 0): `if msg:` tested the truth of the message model (TypeError from compile()); now `is not None`"),
    ("C10-match-star-wildcard", "24b6ab7", "(match x [#* _] y) compiled to MatchStar(name='_') (ValueError from compile()); now the star wildcard"),
    ("C10-odd-dict", "bac53a5", "{1}: an odd dict literal compiled to ast.Dict with unequal keys/values (ValueError from compile()); now a HySyntaxError"),
    ("C10-compare-unpack-mapping", "c0e258f", "(= x y #** z): the #** operand was dropped by _compile_collect while the operator "
     "list was built from all arguments (ValueError from compile()); now a HySyntaxError"),
]


def corpus_first(chk, hy):
    """minimised past failures (corpus/C10/cases.json): each must now be accepted or end in a user-facing error"""
    import json
    import os
    path = os.path.join(vlib.VERIF, "corpus", "C10", "cases.json")
    if not os.path.exists(path):
        return
    for c in json.load(open(path)):
        forms = list(hy.read_many(c["source"]))
        tree = forms[0] if len(forms) == 1 else hy.models.Expression([hy.models.Symbol("do"), *forms])
        res = valid_oracle.classify(hy, tree)
        chk.count("corpus:" + res[0])
        chk.case(("corpus", c["source"]), nontrivial=True)
        if res[0] == "violation":
            chk.fail("corpus-regression:" + valid_oracle.key_of(res), {"tree": c["source"], "note": c["note"], "features": {}},
                     "%s at %s: %s" % (res[2], res[1], res[3][-200:]), "accepted, or a HyLanguageError/SyntaxError",
                     "compile(hy_compile(hy.read_many(%r), module), '<s>', 'exec')" % c["source"])


def witnesses_first(chk, hy):
    """inputs of recorded findings (corpus/C10/witnesses.json), judged before anything generated: while the defect is there
    each is reported through its known finding; one that no longer violates the property is only counted"""
    import json
    import os
    path = os.path.join(vlib.VERIF, "corpus", "C10", "witnesses.json")
    if not os.path.exists(path):
        return
    for c in json.load(open(path)):
        forms = list(hy.read_many(c["source"]))
        tree = forms[0] if len(forms) == 1 else hy.models.Expression([hy.models.Symbol("do"), *forms])
        res = valid_oracle.classify(hy, tree)
        chk.case(("witness", c["source"]), nontrivial=True)
        if res[0] != "violation":
            chk.count("witness:no-longer-a-violation:" + c["finding"])
            continue
        chk.count("witness:reproduces:" + c["finding"])
        chk.fail(valid_oracle.key_of(res), {"tree": c["source"], "python": valid_oracle.py_repr(tree), "features": valid_oracle.features(hy, tree),
                                          "note": c["note"]},
                 "%s at %s: %s" % (res[2], res[1], res[3][-200:]), "an AST accepted by compile() and marshal, or a HyLanguageError/SyntaxError",
                 "compile(hy_compile(hy.read_many(%r), module), '<s>', 'exec')" % c["source"])


def c10_class_matcher(rec, params):
    if not re.search(params["key"], rec.get("key", "")):
        return False
    return bool(rec.get("input", {}).get("features", {}).get(params["feature"]))


# ------------------------------------------------------------------ grammar correspondence (tie T3 for Valid/Comb.v)

def grammar_correspondence(chk, hy, per_head):
    from funcparserlib.parser import NoParseError
    try:
        decs, _ = valid_patterns.decorators(vlib.REPO)
    except vlib.ShapeChanged as e:
        chk.notes.append("grammar correspondence skipped: " + str(e))
        return
    tr = [d for d in decs if d["terms"] is not None]
    chk.extra["translated_heads"] = sorted(h for d in tr for h in d["heads"])
    chk.extra["untranslated_heads"] = sorted(h for d in decs if d["terms"] is None for h in d["heads"])
    live = vc.live_patterns(hy)
    rng = chk.rng
    gen = valid_gen.G(hy, rng, max_depth=3)
    exprs, meta = [], []
    for gi, d in enumerate(tr):
        for h in d["heads"]:
            if h not in live:
                chk.obligation("live parser of pattern macro `%s` found" % h, False)
                continue
            for k in range(per_head):
                r = rng.random()
                if r < 0.55:
                    t = gen.headed(1, head=h)
                    for _ in range(rng.randint(0, 2)):
                        t = gen.mutate(t)
                    args = list(t)[1:] if isinstance(t, hy.models.Expression) and len(t) else []
                elif r < 0.9:
                    args = gen.forms(1, 0, 5)
                else:
                    args = [gen.atom() for _ in range(rng.randint(0, 9))]
                T = vc.Tokens(hy)
                toks = "[%s]" % "; ".join(T.tok(a) for a in args)
                try:
                    real = ("Parsed", T.canon(live[h].parse(args)))
                except NoParseError as e:
                    real = ("SyntaxErrorAt", min(e.state.pos + 1, len(args)))
                exprs.append("pattern_macro (snd (fst (nth %d grammars ([], [], false)))) %s" % (gi, toks))
                meta.append((h, hy.repr(hy.models.Expression(args)), real))
    res = vlib.coq_eval(["HyV.Base.Text", "HyV.Valid.Comb", "HyV.Gen.Patterns"], "", exprs, tag="c10g")
    for r, (h, src, real) in zip(res, meta):
        got = vc.coq_term(r)
        chk.count("corr:grammar:" + ("accept" if real[0] == "Parsed" else "reject"))
        chk.case(("grammar", h, src), nontrivial=len(src) > 4)
        if got != real:
            chk.disagree("Valid.Comb.pattern_macro vs live funcparserlib parser of `%s`" % h, src, repr(got)[:400], repr(real)[:400])


# ------------------------------------------------------------------ run

def run_oracle(chk, n_cases, procs):
    per = 2500
    jobs = [(chk.seed * 1000003 + i, min(per, n_cases - i * per), vlib.REPO, 5 if i % 4 else 4)
            for i in range((n_cases + per - 1) // per)]
    results = []
    import time
    pool = mp.get_context("fork").Pool(procs)
    lost = 0
    budget = 700 if len(jobs) > 20 else 300
    try:
        pending = [pool.apply_async(valid_oracle.worker, (j,)) for j in jobs]
        t_end = time.time() + budget
        for r in pending:
            try:
                results.append(r.get(timeout=max(1, t_end - time.time())))
            except mp.TimeoutError:
                lost += 1
        pool.terminate()
    finally:
        pool.join()
    if lost:
        chk.obligation("all %d oracle jobs returned within %d s" % (len(jobs), budget), False, "%d job(s) did not return" % lost)
    fails = {}
    for r in results:
        for k, v in r["counts"].items():
            chk.count(k, v)
        chk.evaluations += r["n"]
        for s in r["samples"]:
            if len(chk.samples) < 12:
                chk.samples.append(s)
        for k, v in r["fails"].items():
            e = fails.setdefault(k, {"count": 0, "examples": []})
            e["count"] += v["count"]
            e["examples"] += v["examples"]
    chk.extra["distinct_trees"] = sum(r["distinct"] for r in results)
    nt = sum(r["nontrivial"] for r in results)
    for i in range(nt):
        chk.nontrivial.add(("tree", i))
    chk.extra["violation_classes_seen"] = {k: v["count"] for k, v in sorted(fails.items())}
    for k, v in sorted(fails.items()):
        for ex in sorted(v["examples"], key=lambda e: len(e["tree"]))[:3]:
            inp = {"tree": ex["tree"], "python": ex["py"], "features": ex["features"], "occurrences_of_this_class": v["count"],
                   "original": ex.get("original", "")}
            chk.fail(k, inp, "%s at %s: %s" % (ex["exc"], ex["stage"], ex["msg"][-200:]),
                     "an AST accepted by compile() and marshal, or a HyLanguageError/SyntaxError",
                     "PYTHONPATH=%s python -c 'import hy,types,sys; m=types.ModuleType(\"m\"); sys.modules[\"m\"]=m; "
                     "compile(hy.compiler.hy_compile(%s, m), \"<s>\", \"exec\")'" % (vlib.REPO, ex["py"]))


def run(chk):
    chk.trusted = TRUSTED
    chk.assumptions = [
        "user-facing = an instance of hy.errors.HyLanguageError or of SyntaxError, raised by hy_compile or by compile() "
        "(DESIGN section 9: a SyntaxError from Python's own compile() counts as user-facing)",
        "violation = any other exception from hy_compile (incl. HyCompileError 'Internal Compiler Bug', RecursionError), "
        "ValueError/TypeError/SystemError/anything else from compile(), any exception from marshal.dumps",
        "trees whose compile-time evaluation does not return within 3 s (macros looping at compile time) are counted as "
        "`timeout` and not judged",
        "model trees are built from reader-legal atoms; depth <= 5",
    ]
    chk.matchers["c10_class"] = c10_class_matcher
    thorough = chk.tier == "thorough"
    cone = ["Props/C10.vo"]
    ok = chk.prove("Props/C10.v", cone, [valid_patterns.translate])
    hy = vlib.use_repo_in_process()
    import hy.compiler  # noqa
    chk.rule = ("trees = 45% grammar-directed well-formed forms over every core head (all keys of builtins._hy_macros), 30% of "
                "them mutated 1-3 times (drop/duplicate/replace/swap children, change container type, truncate), 15% a head "
                "with random arguments, 10% plain expressions; depth <= 5; non-trivial = distinct tree with at least two "
                "sequence nodes; grammar correspondence: per translated head, generated and mutated argument lists")
    if ok:
        try:
            grammar_correspondence(chk, hy, 40 if thorough else 6)
        except Exception as e:
            chk.obligation("grammar correspondence ran", False, str(e)[-1500:])
        try:
            from props import valid_handlers
            valid_handlers.handler_correspondence(chk, hy, 6000 if thorough else 500)
        except ImportError:
            pass
        except Exception as e:
            chk.obligation("handler correspondence ran", False, str(e)[-1500:])
    corpus_first(chk, hy)
    witnesses_first(chk, hy)
    run_oracle(chk, 900000 if thorough else 18000, 8 if thorough else 6)


def replay(path):
    """re-run the oracle on the input of a replay file; exit status 1 if it still violates the property"""
    import json
    hy = vlib.use_repo_in_process()
    import hy.compiler  # noqa
    d = json.load(open(path))
    if d.get("kind") != "failing-input":
        print(json.dumps(d, indent=1)[:3000])
        return 1
    inp = d["input"]
    tree = eval(inp["python"], {"hy": hy}) if inp.get("python") else hy.read_many(inp["tree"])
    res = valid_oracle.classify(hy, tree)
    print("input:", inp.get("tree"))
    print("outcome:", res)
    return 1 if res[0] == "violation" else 0
