"""C09 -- try/except/else/finally and with behave correctly at every raise point."""
import ast
import itertools

from lib import vlib
from props import compiler_common as cc
from translator import compiler_tables

META = {
    "technique": "Coq simulation proof for try/except/else/finally over all fault oracles (every raise point, singly or "
                 "combined, any nesting) incl. freshness of the result variable across finally; AST-level correspondence "
                 "with hy_compile; CPython execution of the real compiled code vs the reference with every effect point "
                 "made to raise in turn; `with` decided by differential execution against the equivalent Python with-statement",
    "level_text": "C09_try_correct_partial: for every try form (any body, handlers, else, finally built from arbitrary forms of "
                  "the modelled language), every fault oracle, subclass relation and store, the compiled try statement "
                  "agrees with the reference semantics (C09_reference_semantics states it in the property's words) on the "
                  "clauses run, the escaping exception, effects, user variables and result value. The harness enumerates "
                  "every effect point (and pairs) of generated try nestings on the real compiler. Partial: `with` (and "
                  "except-variables) are not in the Coq model; they are decided by the oracle only, on generated programs, "
                  "against Python's own with statement.",
    "level_note": "Trusted: as C01 (kernel; PySem validated against CPython; reference semantics from the docs; compiler model "
                  "tied at AST level). For `with`: the harness's rendering of the equivalent Python program.",
}

CORPUS = [
    ("try", [("const", ("int", 1))], [(("one", 1), [("const", ("int", 2))])], [], None),                      # fixed 08f501f
    ("try", [("log", 1, ("const", ("int", 1)))], [(("all",), [])], [], [("log", 2, ("const", ("none",)))]),
    ("try", [("raise", ("const", ("exn", 2)))], [(("one", 1), [("log", 1, ("const", ("int", 3)))])], None, [("log", 2, ("const", ("none",)))]),
    # E4 derives from BaseException, not Exception: (except [] ...) is Python's bare `except:` and must catch it, a handler
    # typed with an Exception subclass must not
    ("try", [("raise", ("const", ("exn", 4)))], [(("all",), [("log", 1, ("const", ("int", 5)))])], None, None),
    ("try", [("raise", ("const", ("exn", 4)))], [(("one", 1), [("const", ("int", 1))]), (("all",), [("const", ("int", 5))])], None,
     [("log", 1, ("const", ("none",)))]),
    ("try", [("try", [("raise", ("const", ("exn", 4)))], [(("many", [0, 1]), [("const", ("int", 1))])], None, [("log", 1, ("const", ("none",)))])],
     [(("all",), [("log", 2, ("const", ("int", 5)))])], None, None),
    ("log", 2, ("try", [("log", 1, ("raise", ("const", ("exn", 4))))], [(("one", 4), [("const", ("int", 7))]), (("all",), [("const", ("int", 5))])], None, None)),
]


# ---------------------------------------------------------------- `with`: differential against Python

class _WGen:
    def __init__(self, rng):
        self.rng, self.k = rng, 0

    def fk(self):
        self.k += 1
        return self.k

    def body(self, d):
        out = []
        for _ in range(self.rng.randrange(0, 3)):
            r = self.rng.random()
            if r < 0.55:
                out.append(("log", self.fk(), self.rng.choice([0, 1, 7])))
            elif r < 0.7:
                out.append(("raise", self.rng.randrange(1, 4)))
            elif r < 0.8:
                out.append(("var", "x%d" % self.rng.randrange(2)))
            elif d > 0:
                out.append(self.wth(d - 1))
            else:
                out.append(("log", self.fk(), 2))
        return out

    def wth(self, d):
        items = []
        for _ in range(self.rng.choice([1, 1, 2])):
            # manager: (id, enter behaviour, exit behaviour); bound to a variable or not
            # sk: log key of a statement-producing manager expression (do (log sk 0) (setv zz 1) (cm ...)), or None;
            # a later manager of that kind makes Hy split the form into nested with statements
            items.append((self.fk(), self.rng.choice(["ok", "ok", "ok", "raise"]), self.rng.choice(["pass", "pass", "suppress", "raise"]),
                          self.rng.choice([None, "x0", "x1"]), self.fk() if self.rng.random() < 0.3 else None))
        return ("with", items, self.body(d))


def w_hy(f):
    if f[0] == "log":
        return "(log %d %d)" % (f[1], f[2])
    if f[0] == "raise":
        return "(raise (E%d))" % f[1]
    if f[0] == "var":
        return f[1]
    items = " ".join("%s %s" % (v or "_", ("(do (log %d 0) (setv zz 1) (cm %d \"%s\" \"%s\"))" % (sk, k, en, ex)) if sk is not None
                                else "(cm %d \"%s\" \"%s\")" % (k, en, ex)) for k, en, ex, v, sk in f[1])
    return "(with [%s]%s)" % (items, "".join(" " + w_hy(x) for x in f[2]))


def w_py(f, ind, target):
    """python statements evaluating form f; its value goes to `target` (a name) if not None"""
    pad = "    " * ind
    if f[0] == "log":
        return "%s%slog(%d, %d)\n" % (pad, (target + " = ") if target else "", f[1], f[2])
    if f[0] == "raise":
        return "%sraise E%d()\n" % (pad, f[1])
    if f[0] == "var":
        return "%s%s\n" % (pad, (target + " = " + f[1]) if target else f[1])
    tmp = "_w%d" % f[1][0][0]
    s = "%s%s = None\n" % (pad, tmp)
    # the reference: managers are entered left to right, each manager expression (with its statements) evaluated
    # just before it is entered -- nested with statements wherever a manager expression has statements
    items, body = list(f[1]), f[2]
    lvl = ind
    while items:
        k, en, ex, v, sk = items[0]
        if sk is not None:
            s += "%slog(%d, 0)\n%szz = 1\n" % ("    " * lvl, sk, "    " * lvl)
        group = [items.pop(0)]
        while items and items[0][4] is None:
            group.append(items.pop(0))
        s += "%swith %s:\n" % ("    " * lvl, ", ".join("cm(%d, '%s', '%s')%s" % (k2, en2, ex2, (" as " + v2) if v2 else "")
                                                        for k2, en2, ex2, v2, _ in group))
        lvl += 1
    if not body:
        s += "%s%s = None\n" % ("    " * lvl, tmp)
    for i, x in enumerate(body):
        s += w_py(x, lvl, tmp if i == len(body) - 1 else None)
    if target:
        s += "%s%s = %s\n" % (pad, target, tmp)
    return s


def w_run(code_runner):
    trace = []

    def log(k, v):
        trace.append(k)
        return v

    class CM:
        def __init__(self, k, en, ex):
            self.k, self.en, self.ex = k, en, ex

        def __enter__(self):
            trace.append(("enter", self.k))
            if self.en == "raise":
                raise env["E3"]()
            return self.k

        def __exit__(self, t, v, tb):
            trace.append(("exit", self.k, t.__name__ if t else None))
            if self.ex == "raise":
                raise env["E2"]()
            return self.ex == "suppress"
    env = {"log": log, "cm": CM, "x0": -1, "x1": -2}
    env["E1"] = type("E1", (Exception,), {})
    env["E2"] = type("E2", (env["E1"],), {})
    env["E3"] = type("E3", (Exception,), {})
    try:
        val = ("V", code_runner(env))
    except Exception as e:
        val = ("X", type(e).__name__)
    return val, trace, (env.get("x0"), env.get("x1"))


def with_oracle(chk, rng, n):
    hy = vlib.use_repo_in_process()
    g = _WGen(rng)
    for i in range(n):
        g.k = 0
        f = g.wth(rng.randrange(0, 3))
        src = w_hy(f)
        pysrc = w_py(f, 0, "_result")

        def run_hy(env):
            return hy.eval(hy.read_many(src), env)

        def run_py(env):
            exec(compile(pysrc, "<ref>", "exec"), env)
            return env.get("_result")
        a = w_run(run_hy)
        b = w_run(run_py)
        chk.count("with:" + a[0][0])
        chk.case("W:" + src, nontrivial=len(src) > 40, sample={"with": src, "result": repr(a)} if i % 200 == 3 else None)
        if a != b:
            chk.fail("with-differs", {"program": src, "python_reference": pysrc}, repr(a), repr(b),
                     "hy.eval(hy.read_many(src), env) vs exec of the python_reference with the harness's cm/log")


# ---------------------------------------------------------------- except-variables: differential against Python
# The exception variable is local to its handler (the property): the reference renders it under a private name,
# the Hy program under a name that may shadow an outer variable.

class _TGen:
    def __init__(self, rng):
        self.rng, self.k, self.ids = rng, 0, 0

    def fk(self):
        self.k += 1
        return self.k

    def body(self, d, exc, avoid, lo=0, hi=3):
        """exc: id of the innermost bound exception variable (or None); avoid: outer names shadowed here"""
        out = []
        outer = [v for v in ("x0", "x1") if v not in avoid]
        for _ in range(self.rng.randrange(lo, hi + 1)):
            r = self.rng.random()
            if r < 0.3:
                out.append(("log", self.fk(), self.rng.choice([0, 1, 7])))
            elif r < 0.42:
                out.append(("raise", self.rng.randrange(1, 4)))
            elif r < 0.57 and outer:
                out.append(("rd", self.fk(), self.rng.choice(outer)))
            elif r < 0.7 and outer:
                out.append(("wr", self.rng.choice(outer), self.rng.choice([2, 5, 9])))
            elif r < 0.82 and exc is not None:
                out.append(("exc", self.fk(), exc))
            elif d > 0:
                out.append(self.tr(d - 1, exc, avoid))
            else:
                out.append(("log", self.fk(), 3))
        return out

    def tr(self, d, exc=None, avoid=frozenset()):
        hs = []
        for _ in range(self.rng.choice([1, 1, 2, 3])):
            cls = self.rng.randrange(1, 4)
            if self.rng.random() < 0.65:
                self.ids += 1
                eid = self.ids
                name = self.rng.choice(["x0", "x1", "x0", "x1", "e"])
                hs.append((cls, eid, name, self.body(d, (eid, name), avoid | {name})))
            else:
                hs.append((cls, None, None, self.body(d, exc, avoid)))
        orelse = self.body(d, exc, avoid, 0, 2) if self.rng.random() < 0.3 else None
        final = self.body(d, exc, avoid, 0, 2) if self.rng.random() < 0.4 else None
        return ("try", self.body(d, exc, avoid), hs, orelse, final)


def t_hy(f):
    if f[0] == "log":
        return "(log %d %d)" % (f[1], f[2])
    if f[0] == "raise":
        return "(raise (E%d))" % f[1]
    if f[0] == "rd":
        return "(log %d %s)" % (f[1], f[2])
    if f[0] == "wr":
        return "(setv %s %d)" % (f[1], f[2])
    if f[0] == "exc":
        return "(log %d (. (type %s) __name__))" % (f[1], f[2][1])
    s = "(try" + "".join(" " + t_hy(x) for x in f[1])
    for cls, eid, name, b in f[2]:
        s += " (except [%sE%d]%s)" % ((name + " ") if eid else "", cls, "".join(" " + t_hy(x) for x in b))
    if f[3] is not None:
        s += " (else%s)" % "".join(" " + t_hy(x) for x in f[3])
    if f[4] is not None:
        s += " (finally%s)" % "".join(" " + t_hy(x) for x in f[4])
    return s + ")"


def t_block(forms, ind, target):
    pad = "    " * ind
    if not forms:
        return "%s%s\n" % (pad, (target + " = None") if target else "pass")
    return "".join(t_py(x, ind, target if i == len(forms) - 1 else None) for i, x in enumerate(forms))


def t_py(f, ind, target):
    pad = "    " * ind
    asg = (target + " = ") if target else ""
    if f[0] == "log":
        return "%s%slog(%d, %d)\n" % (pad, asg, f[1], f[2])
    if f[0] == "raise":
        return "%sraise E%d()\n" % (pad, f[1])
    if f[0] == "rd":
        return "%s%slog(%d, %s)\n" % (pad, asg, f[1], f[2])
    if f[0] == "wr":
        return "%s%s = %d\n%s" % (pad, f[1], f[2], ("%s%s = None\n" % (pad, target)) if target else "")
    if f[0] == "exc":
        return "%s%slog(%d, type(_e%d).__name__)\n" % (pad, asg, f[1], f[2][0])
    t_py.n += 1
    tmp = "_t%d" % t_py.n
    s = "%s%s = None\n%stry:\n" % (pad, tmp, pad)
    has_else = bool(f[3])
    s += t_block(f[1], ind + 1, None if has_else else tmp)
    for cls, eid, name, b in f[2]:
        s += "%sexcept E%d%s:\n" % (pad, cls, (" as _e%d" % eid) if eid else "")
        s += t_block(b, ind + 1, tmp)
    if has_else:
        s += "%selse:\n" % pad + t_block(f[3], ind + 1, tmp)
    if f[4] is not None:
        s += "%sfinally:\n" % pad + t_block(f[4], ind + 1, None)
    if target:
        s += "%s%s = %s\n" % (pad, target, tmp)
    return s


t_py.n = 0


def exceptvar_oracle(chk, rng, n):
    hy = vlib.use_repo_in_process()
    g = _TGen(rng)
    for i in range(n):
        g.k = 0
        f = g.tr(rng.randrange(0, 3))
        src = "(setv _result " + t_hy(f) + ")"
        t_py.n = 0
        pysrc = t_py(f, 0, "_result")

        def run_hy(env):
            hy.eval(hy.read_many(src), env)
            return env.get("_result")

        def run_py(env):
            exec(compile(pysrc, "<ref>", "exec"), env)
            return env.get("_result")
        a = w_run(run_hy)
        b = w_run(run_py)
        chk.count("exceptvar:" + a[0][0])
        chk.case("T:" + src, nontrivial=len(src) > 50, sample={"try": src, "result": repr(a)} if i % 300 == 5 else None)
        if a != b:
            chk.fail("except-variable-differs", {"program": src, "python_reference": pysrc}, repr(a), repr(b),
                     "hy.eval(hy.read_many(src), env) vs exec of the python_reference (exception variables under private names)")


TYPE_EXPR_TEMPLATES = [
    # exception TYPE expressions that mention the clause's own variable name: Python evaluates the type before it binds the
    # name, so the mention refers to the OUTER variable.  (program with %(n)s the name, %(A)s / %(B)s two classes; notes)
    ('(setv %(n)s %(A)s)\n(try (raise (%(A)s "a")) (except [%(n)s %(n)s] (note (str %(n)s))))\n(note (is %(n)s %(A)s))', ["a", True]),
    ('(try (raise (%(A)s "a")) (except [%(n)s %(A)s] (try (raise (%(A)s "b")) (except [%(n)s (type %(n)s)] (note (str %(n)s)))) (note (str %(n)s))))',
     ["b", "a"]),
    ('(setv %(n)s %(A)s)\n(try (raise (%(B)s "a")) (except [%(n)s [%(n)s %(B)s]] (note (str %(n)s))))', ["a"]),
    ('(setv %(n)s #(%(A)s %(B)s))\n(try (raise (%(B)s "a")) (except [%(n)s (get %(n)s 1)] (note (str %(n)s))))\n(note (len %(n)s))', ["a", 2]),
    ('(defn f [%(n)s] (try (raise (%(A)s "a")) (except [%(n)s %(n)s] (note (str %(n)s)))) (note (is %(n)s %(A)s)))\n(f %(A)s)', ["a", True]),
    ('(setv %(n)s %(B)s)\n(try (try (raise (%(A)s "a")) (except [%(n)s %(n)s] (note "wrong"))) (except [q %(A)s] (note (str q))))', ["a"]),
    ('(defn f [] (try (raise (%(A)s "a")) (except [%(n)s %(A)s] (try (raise (%(B)s "b")) (except [%(n)s [(type %(n)s) %(B)s]] (note (str %(n)s)))) '
     '(note (str %(n)s)))))\n(f)', ["b", "a"]),
    ('(setv %(n)s %(A)s)\n(note (try (raise (%(A)s "a")) (except [%(n)s (do (note "t") %(n)s)] (str %(n)s)) (finally (note "f"))))', ["t", "f", "a"]),
]


def handler_type_expr_oracle(chk, rng, n):
    hy = vlib.use_repo_in_process()
    for i in range(n):
        tpl, want = TYPE_EXPR_TEMPLATES[i % len(TYPE_EXPR_TEMPLATES)]
        name = ["e", "err", "x!", "exc-1"][(i // len(TYPE_EXPR_TEMPLATES)) % 4]
        a, b = rng.sample(["E1", "E2", "E3"], 2)
        src = tpl % {"n": name, "A": a, "B": b}
        notes = []
        env = {"note": notes.append}
        for c in ("E1", "E2", "E3"):
            env[c] = type(c, (Exception,), {})
        try:
            hy.eval(hy.read_many(src), env)
            got = notes
        except Exception as e:
            got = notes + ["raises %s: %s" % (type(e).__name__, str(e)[:80])]
        chk.count("handler-type-expression")
        chk.case("Y:" + src, nontrivial=True, sample={"program": src, "notes": repr(got)} if i % 17 == 3 else None)
        if got != want:
            chk.fail("handler-type-sees-unbound-variable", {"program": src}, repr(got), repr(want),
                     "hy.eval(hy.read_many(src), env) with note = list.append and E1..E3 unrelated Exception subclasses")


def run(chk):
    chk.trusted = cc.TRUSTED_COMPILER
    chk.assumptions = ["handler types are exception class names; except-variables and `with` are outside the Coq model "
                       "(decided dynamically)"]
    cc.register_matchers(chk)
    chk.prove("Props/C09.v", ["Props/C09.vo", "Compiler/Run.vo"], [compiler_tables.translate])
    rng = chk.rng
    thorough = chk.tier == "thorough"
    progs = [cc.dress(rng, e, fault_p=0.0) for e in CORPUS]
    # try nestings; each effect point raises in turn (every class), then pairs
    g = cc.Gen(rng, ["try", "raise", "exn", "setx"])
    base = []
    for _ in range(120 if thorough else 25):
        g.k = 0
        g.loopvar = 0
        e = g.expr(rng.randrange(2, 4))
        if cc.kinds(e).get("try", 0) == 0:
            e = ("try", [e], [(("one", rng.randrange(cc.CLASSES)), [("log", g.fresh_k(), ("const", ("int", 1)))])], None,
                 [("log", g.fresh_k(), ("const", ("none",)))])
        base.append(e)
    for e in base:
        pts = cc.log_points(e)
        p0 = cc.dress(rng, e, fault_p=0.0)
        progs.append(p0)
        for k in pts:
            for c in ([rng.randrange(cc.CLASSES)] if not thorough else range(cc.CLASSES)):
                progs.append(dict(p0, fault={k: c}))
                chk.count("single-fault")
        pairs = list(itertools.combinations(pts, 2))
        rng.shuffle(pairs)
        for a, b in pairs[: (40 if thorough else 6)]:
            progs.append(dict(p0, fault={a: rng.randrange(cc.CLASSES), b: rng.randrange(cc.CLASSES)}))
            chk.count("pair-fault")
    progs += cc.make_progs(rng, 1500 if thorough else 150, ["try", "raise", "exn", "setx", "while"], 2, 4)
    cc.annotate(progs)
    chk.rule = ("try forms (depth 2-3 nestings with handlers of one/many/all types, else, finally) in which every effect point "
                "is made to raise in turn (thorough: each of 5 classes), plus pairs of raising points, plus random programs "
                "with try/while/raise; and `with` forms (1-2 managers with scripted enter/exit: return, raise, suppress; "
                "nested) run against the equivalent Python with-statement; try forms whose handlers bind exception variables "
                "under names that may shadow outer variables, sibling handlers reading/writing the outer ones, run against "
                "a Python rendering with private exception names; non-trivial = distinct program of size >= 4")
    cc.differential(chk, progs)
    with_oracle(chk, rng, 3000 if thorough else 400)
    exceptvar_oracle(chk, rng, 12000 if thorough else 2500)
    handler_type_expr_oracle(chk, rng, 320 if thorough else 64)
