"""C30 -- quote reproduces its argument model exactly."""
import math

from lib import vlib
from props import quote_common as qc

META = {
    "technique": "Coq proof by induction on the model tree over a line-by-line model of render_quoted_form, of the Hy "
                 "fragment its output is written in and of the hy.models constructors; model-vs-implementation "
                 "correspondence on the rendered forms and on their values; node-by-node oracle on the real quote",
    "level_text": "Theorem C30_quote_identity_partial (coq/Props/C30.v): for every model tree the constructors can "
                  "return, of any size and depth, under every environment and head-symbol normaliser, the model of "
                  "(quote m) evaluates to exactly m without running user code -- except trees holding a Complex whose "
                  "imaginary part is changed by 0 + x, for which C30_complex_negzero_refuted proves the opposite "
                  "('-0j comes back as 0j; recorded finding). The model is compared with the real "
                  "render_quoted_form / hy.eval on every generated tree on every run.",
    "level_note": "Trusted: Coq kernel; the hand-written model Quote/Model.v (render, eval of the constructor-call "
                  "fragment, constructors, float bit facts add0/f_is_zero), tied by differential execution only; "
                  "extraction + OCaml driver + this harness; hy.mangle supplies the normaliser table (subject of C32).",
}

TRUSTED = [
    "Coq 8.16.1 kernel (coqc, full .vo); vm_compute for the examples only; no native_compute",
    "axioms: none (Print Assumptions: Closed under the global context for every C30 theorem)",
    "hand-written model coq/Quote/Model.v of render_quoted_form, of the evaluation of the constructor-call forms "
    "(positional then keyword arguments, list displays, from_parser=True) and of the hy.models constructors -- tied to "
    "/repo by differential execution on every run (rendered form and value), not verified against the source text",
    "float facts in Model.v (add0: 0 + x flips -0.0 and quiets signalling NaNs; f_is_zero) validated here on bit patterns",
    "hy.mangle(...).replace('_','-') is supplied as a table computed by the real function (mangle is C32's subject)",
    "extraction (ExtrOcamlBasic only) + extract/quote_driver.ml + props/quote_common.py (dumps, line protocol)",
]

CORPUS_TEXTS = ["1-0j", "-0j", "(a -0.0j)", "-0.0", "[1-0j]", "(unquote)", "(unquote x)", "`(a ~x ~@y)", "#[x[a]b]x]",
                "f\"a{x !r:>{w}}b\"", "#[f-x[a{b}c]f-x]", "()", "[]", "#()", "#{}", "{}", "f\"\"", ":", "\uff55nquote",
                "(unquote_splice a)", "'(quote x)", "{1}", "#{1 1}", "b\"\\x00\"", "NaN", "-Inf", "1e400", "\"]\""]


def negzero_matcher(rec, params):
    """the recorded defect: the only difference is Complex imaginary parts -0.0 that came back +0.0"""
    if rec["key"] != "quote-not-identity" or rec["observed"][0] != "Ok":
        return False
    exp, obs = rec["expected"][1], rec["observed"][1]
    hit = [False]

    def fix(d):
        if d[0] == "VCpx" and d[2] == 1 << 63:
            hit[0] = True
            return ("VCpx", d[1], 0)
        if d[0] == "VSeq":
            return ("VSeq", d[1], tuple(fix(x) for x in d[2]))
        return d
    return fix(exp) == obs and hit[0]


def float_facts(chk):
    """add0 / f_is_zero of Model.v against the interpreter, on special and random bit patterns"""
    pats = list(qc.FLOAT_BITS) + [chk.rng.getrandbits(64) for _ in range(4000)]
    pats += [0x7ff0000000000000 | chk.rng.getrandbits(51) | 1 for _ in range(500)]   # signalling NaNs
    bad = []
    for b in pats:
        x = qc.from_bits(b)
        got = qc.fbits(0 + x)
        e, mant = (b >> 52) & 2047, b & ((1 << 52) - 1)
        snan = e == 2047 and mant != 0 and mant < (1 << 51)
        want = 0 if b == 1 << 63 else (b | (1 << 51)) if snan else b
        if got != want:
            bad.append(hex(b))
        if bool(x) != (b % (1 << 63) != 0):
            bad.append("truth " + hex(b))
    chk.obligation("float facts of Quote/Model.v (add0, f_is_zero) agree with the interpreter on %d bit patterns" % len(pats),
                   not bad, repr(bad[:8]))


def run(chk):
    chk.trusted = TRUSTED
    chk.assumptions = [
        "'equal' is read node by node: same class, same brackets / conversion / expression / is_tstring, integers by "
        "value, floats and complex parts by their 64 bits (so NaN payloads and the sign of zero count)",
        "models are trees built by the hy.models constructors or the reader (predicate wf_ctor; computed in Coq for "
        "every generated tree and required to hold); attribute values are str/None and is_tstring is a bool",
        "quote is evaluated through hy.eval in an environment that does not rebind `hy` and defines no macros",
    ]
    chk.matchers["complex_negzero_imag"] = negzero_matcher
    chk.prove("Props/C30.v", ["Props/C30.vo", "Quote/Extract.vo"], [])
    thorough = chk.tier == "thorough"
    hy = vlib.use_repo_in_process()
    from hy import models as M
    float_facts(chk)
    rng = chk.rng
    g = qc.Gen(rng, chk)
    cases = []   # (origin, text or None, model)
    for t in CORPUS_TEXTS:
        try:
            cases.append(("corpus-text", t, hy.read(t)))
        except Exception:  # noqa
            pass
    n_tree, n_text = (25000, 8000) if thorough else (1300, 500)
    gen_errors = []
    for i in range(n_tree):
        try:
            cases.append(("constructed", None, g.tree(rng.choice([1, 2, 3, 3, 4]))))
        except Exception as e:  # noqa  -- a constructor of the code under test refused a generated input: note it, go on
            gen_errors.append("%s: %s" % (type(e).__name__, str(e)[:100]))
    chk.obligation("the generator built its trees without a hy.models constructor raising", not gen_errors,
                   "%d times, e.g. %s" % (len(gen_errors), "; ".join(gen_errors[:3])))
    unread = 0
    for i in range(n_text):
        t = qc.gen_text(rng, rng.choice([0, 1, 2, 3]))
        try:
            cases.append(("read", t, hy.read(t)))
        except Exception:  # noqa  -- not a readable text: outside the quantifier
            unread += 1
    chk.count("generated-text-not-readable", unread)
    chk.rule = ("trees: random models built with the hy.models constructors (all 14 classes, FString/FComponent "
                "attributes, bracket strings, special/illegal symbol and keyword names via from_parser, empty sequences, "
                "floats by random bits incl. NaN payloads, Complex from bits and from literals with -0.0 parts, unquote/"
                "quasiquote-headed expressions of every arity, depth <= 4) + trees read by hy.read from generated texts + "
                "a fixed corpus; non-trivial = distinct tree with >= 3 nodes or an attribute")
    try:
        binary = qc.build_driver()
        chk.obligation("extracted model builds (Quote/Extract.v, extract/quote_driver.ml)", True)
    except Exception as e:  # noqa
        chk.obligation("extracted model builds (Quote/Extract.v, extract/quote_driver.ml)", False, str(e)[-1500:])
        binary = None
    dumps, reals, renders, lines = [], [], [], []
    for origin, text, m in cases:
        d = qc.dump(m)
        dumps.append(d)
        symbols = set()
        qc.collect_symbols(d, symbols)
        res, trace, raw, exc = qc.run_quote_impl("quote", m)
        reals.append((res, trace))
        renders.append(qc.real_render(m, math.inf))
        lines.append(qc.encode_case("quote", qc.norm_table(symbols), {}, d))
    try:
        outs = qc.run_model(binary, lines) if binary else [None] * len(cases)
    except Exception as e:  # noqa  -- a broken model must not stop the oracle
        chk.obligation("extracted model ran on the generated cases", False, str(e)[-1000:])
        outs = [None] * len(cases)
    n_wf = 0
    bad_instances = []
    for (origin, text, m), d, (res, trace), rr, out in zip(cases, dumps, reals, renders, outs):
        mo = qc.decode_quote(out) if out is not None else None
        wf = mo["wf"] if mo else False
        inp = {"origin": origin, "text": text, "model": repr(m)}
        how = ("PYTHONPATH=%s /venv/bin/python -c 'import hy; m = %s; print(repr(hy.eval(hy.models.Expression("
               "[hy.models.Symbol(\"quote\"), m]))))'" % (vlib.REPO, ("hy.read(%r)" % text) if text is not None else
                                                          repr(m).replace("\n", " ")))
        classes = qc.classes_in(d)
        for c in classes:
            chk.count("class:" + c)
        chk.count("origin:" + origin)
        nodes = qc.count_nodes(d)
        chk.count("nodes:" + ("1" if nodes == 1 else "2-5" if nodes <= 5 else "6-20" if nodes <= 20 else ">20"))
        chk.count("wf" if wf else "wf_ctor-only(complex 0+x)")
        n_wf += wf
        chk.case(repr(d), nontrivial=(nodes >= 3 or "KFString" in classes or "KFComp" in classes or
                                      (d[0] == "VStr" and d[2] is not None)),
                 sample={"input": text if text is not None else repr(m)[:200], "quoted_equal": res == ("Ok", d)}
                 if len(chk.samples) < 12 and nodes >= 4 else None)
        # the generated tree must be one the theorem's hypothesis describes
        if mo:
            if not mo["wf_ctor"]:
                chk.disagree("wf_ctor of Quote/Model.v rejects a tree built by the constructors / the reader", inp,
                             "wf_ctor = false", "constructed")
            # tie T3: rendered form, and the value of the rendered form
            if mo["render"] != rr:
                chk.disagree("Quote.Model.render LInf vs render_quoted_form(level=Inf)", inp, mo["render"], rr)
            if mo["run"] != (res, trace):
                chk.disagree("Quote.Model.run_quote vs hy.eval of (quote m)", inp, mo["run"], (res, trace))
            # the theorem's instance, evaluated by the extracted model
            if wf and mo["run"] != (("Ok", d), []):
                bad_instances.append(repr(inp)[:300])
        # the property, on the real code
        if res != ("Ok", d) or trace:
            chk.fail("quote-not-identity", inp, res, ("Ok", d), how)
    chk.obligation("every evaluated instance of C30_quote_identity_partial (wf m) gives (Ok (inj m), no user code)",
                   not bad_instances, "; ".join(bad_instances[:3]))
    chk.extra["trees_satisfying_wf"] = n_wf
    chk.extra["trees_total"] = len(cases)


def setup():
    qc.build_driver()
