"""Shared by C22 / C26: decoding the numeric model's output, the Unicode oracle table, observing
as_identifier / hy.read, the documented-rules reference for numeric texts."""
import math
import re
import unicodedata
import warnings

from props import lit_common as lc


# ------------------------------------------------------------------ oracle table for the model

def utable(text):
    """cp:flags:dec for every character >= U+007F of the text (flags bit0 isspace, bit1 isdigit)"""
    ents = []
    for c in sorted(set(text)):
        if ord(c) >= 127:
            fl = (1 if c.isspace() else 0) | (2 if c.isdigit() else 0)
            ents.append("%d:%d:%d" % (ord(c), fl, unicodedata.decimal(c, -1)))
    return ";".join(ents)


# ------------------------------------------------------------------ decoding model output

class Dec:
    def __init__(self, nums):
        self.n, self.i = nums, 0

    def take(self):
        v = self.n[self.i]
        self.i += 1
        return v

    def N(self):
        k = self.take()
        v = 0
        for j in range(k):
            v |= self.take() << (30 * j)
        return v

    def Z(self):
        neg = self.take()
        v = self.N()
        return -v if neg else v

    def fdesc(self):
        k = self.take()
        neg = self.take()
        if k == 0:
            m = self.N()
            e = self.Z()
            return ("fin", neg, m, e)
        return ("inf" if k == 1 else "nan", neg)

    def text(self):
        k = self.take()
        s = "".join(chr(self.take()) for _ in range(k))
        return s


def fdesc_value(d):
    if d[0] == "fin":
        e = max(min(d[3], 10 ** 7), -10 ** 7)      # the text "<m>e<exp>" is what CPython would round
        return float(("-" if d[1] else "") + "%de%d" % (d[2], e))
    if d[0] == "inf":
        return -math.inf if d[1] else math.inf
    return math.copysign(math.nan, -1.0 if d[1] else 1.0)


def canon_float(x):
    if math.isnan(x):
        return "nan" if math.copysign(1.0, x) > 0 else "-nan"
    return x.hex()


def decode_ident(nums, text):
    """model result -> the same canonical form as observe_*"""
    d = Dec(nums)
    k = d.take()
    if k == 1:
        nk = d.take()
        if nk == 0:
            return ("int", d.Z())
        if nk == 1:
            return ("float", canon_float(fdesc_value(d.fdesc())))
        re_ = fdesc_value(d.fdesc())
        im = fdesc_value(d.fdesc())
        return ("complex", canon_float(re_), canon_float(im))
    if k == 2:
        return ("sym", text)
    if k == 3:
        head = d.text()
        n = d.take()
        parts = tuple(d.text() for _ in range(n))
        return ("dotted", (".",) + parts if head == "" else (head, "None") + parts)
    if k == 4:
        return ("err", {1: "multi-dots", 2: "trailing-dot", 3: "part-not-symbol"}[d.take()])
    return ("illegal",)


def decode_opt(nums, kind):
    d = Dec(nums)
    if d.take() == 0:
        return None
    if kind == "int":
        return d.Z()
    if kind == "float":
        return canon_float(fdesc_value(d.fdesc()))
    return (canon_float(fdesc_value(d.fdesc())), canon_float(fdesc_value(d.fdesc())))


# ------------------------------------------------------------------ observing the implementation

def err_class(msg):
    if "multiple dots in a row" in msg:
        return ("err", "multi-dots")
    if "can't end with a dot" in msg:
        return ("err", "trailing-dot")
    if "parts of a dotted identifier must be symbols" in msg:
        return ("err", "part-not-symbol")
    if "Syntactically illegal symbol" in msg:
        return ("illegal",)
    return ("other-error", msg[:80])


def canon_model(hy, m):
    M = hy.models
    if type(m) is M.Integer:
        return ("int", int(m))
    if type(m) is M.Float:
        return ("float", canon_float(float(m)))
    if type(m) is M.Complex:
        return ("complex", canon_float(m.real), canon_float(m.imag))
    if type(m) is M.Symbol:
        return ("sym", str(m))
    if type(m) is M.Expression and len(m) >= 2 and all(type(x) is M.Symbol for x in m) and set(str(m[0])) == {"."}:
        return ("dotted", tuple(str(x) for x in m))
    if type(m) is M.Keyword:
        return ("keyword", m.name)
    return ("other-model", type(m).__name__)


def observe_as_identifier(hy, text):
    """as_identifier(text) with reader=None (the path Symbol() takes)"""
    from hy.reader.hy_reader import as_identifier
    try:
        with warnings.catch_warnings():
            warnings.simplefilter("ignore")
            m = as_identifier(text)
    except ValueError as e:
        return err_class(str(e))
    except Exception as e:
        return ("other-exception", type(e).__name__)
    return canon_model(hy, m)


def observe_read(hy, text):
    """list(hy.read_many(text)) as ('forms', [canon...]) / ('lex', class) / ('premature',)"""
    from hy.reader.exceptions import LexException, PrematureEndOfInput
    try:
        with warnings.catch_warnings():
            warnings.simplefilter("ignore")
            ms = list(hy.read_many(text))
    except PrematureEndOfInput:
        return ("premature",)
    except LexException as e:
        return ("lex", err_class(e.msg))
    except Exception as e:
        return ("other-exception", type(e).__name__)
    return ("forms", [canon_model(hy, m) for m in ms])


# ------------------------------------------------------------------ the documented rules (docs/syntax.rst, "Numeric literals")

_FL = r"(?:(?:[0-9]+\.?[0-9]*|\.[0-9]+)(?:[eE][+-]?[0-9]+)?|NaN|Inf)"
RX_INT = re.compile(r"[+-]?(?:0[xX][0-9a-fA-F]+|0[oO][0-7]+|0[bB][01]+|[0-9]+)\Z")
RX_FLOAT = re.compile(r"[+-]?(?:(?:[0-9]+\.[0-9]*|\.[0-9]+)(?:[eE][+-]?[0-9]+)?|[0-9]+[eE][+-]?[0-9]+)\Z")
RX_SPECIAL = re.compile(r"[+-]?(?:NaN|Inf)\Z")
RX_COMPLEX = re.compile(r"(?:[+-]?%s[jJ]|[+-]?%s[+-](?:%s)?[jJ]|[+-][jJ])\Z" % (_FL, _FL, _FL))
SEPS = "_,"
SEP_PRED_OK = set("0123456789.eEjJxXoObB")      # a digit, '.', the exponent marker, j, a radix letter
SEP_PRED_HEX = set("abcdefABCDEF")               # digits of a hexadecimal literal


def number_form(core):
    """the number a separator-free ASCII text denotes by the documented rules, or None"""
    if RX_INT.match(core):
        body = core.lstrip("+-")
        v = int(body, 0) if len(body) > 1 and body[1] in "xXoObB" else int(body, 10)
        return ("int", -v if core.startswith("-") else v)
    if RX_FLOAT.match(core) or RX_SPECIAL.match(core):
        return ("float", canon_float(float(core)))
    if RX_COMPLEX.match(core):
        z = complex(core)
        return ("complex", canon_float(z.real), canon_float(z.imag))
    return None


def classify(t):
    """('number', kind, value...) / ('not-number', why) / ('unspecified', why)"""
    if any(ord(c) > 127 for c in t):
        return ("not-number", "non-ascii")
    if not any(c in SEPS for c in t):
        f = number_form(t)
        return ("number",) + f if f else ("not-number", "no-form")
    core = "".join(c for c in t if c not in SEPS)
    f = number_form(core)
    if f is None:
        return ("not-number", "no-form")
    # NaN and Inf are literals in exactly that spelling: a separator inside the word gives a text that is an
    # ordinary identifier (In_f, Na,N are legal variable names), not one of the documented literals
    keep = [i for i, c in enumerate(t) if c not in SEPS]
    for m in re.finditer(r"NaN|Inf", core):
        if keep[m.end() - 1] - keep[m.start()] != 2:
            return ("not-number", "separator-inside-NaN-or-Inf")
    digs = [i for i, c in enumerate(t) if c in "0123456789"]
    first_sep = min(i for i, c in enumerate(t) if c in SEPS)
    if not digs:
        return ("unspecified", "separator in a digit-free literal")
    if first_sep < digs[0]:
        if re.fullmatch(r"[+\-.]*", t[:first_sep]):
            return ("not-number", "separator-before-first-digit")
        return ("unspecified", "separator after a digit-free part")
    ok = SEP_PRED_OK | (SEP_PRED_HEX if re.match(r"[+-]?0[xX]", core) else set())
    for i, c in enumerate(t):
        if c in SEPS and t[i - 1] not in SEPS and t[i - 1] not in ok:
            return ("unspecified", "separator after %r" % t[i - 1])
    return ("number",) + f
