"""C28 -- hy.repr output doesn't depend on earlier failed or nested calls."""
import json
import time

from lib import vlib
from props import print_common as pc
from props import repr_history as rh
from translator import print_tables

META = {
    "technique": "Coq proof over the body of hy-repr regenerated from hy_repr.hy as a sequence of steps on (_quoting, "
                 "_seen) with its try/finally, for every behaviour tree of the registered printers (return, raise at any "
                 "depth, read the state, re-entrant calls incl. on objects in progress) and every history; state machine "
                 "compared with the real hy.repr on scripted histories incl. the state seen inside printers; every call of "
                 "random histories compared with the same call in a fresh interpreter",
    "level_text": "coq/Props/C28.v: C28_history_independence (= C28_full): for every finite history of top-level calls with "
                  "arbitrary printer behaviours, each call's result equals its result from the idle state; "
                  "C28_state_restored_on_every_exit; C28_nested_call_sees states exactly what a call made from inside a "
                  "printer sees and does. The regenerated body must equal the protected one (C28_body_is_protected).",
    "level_note": "Trusted: Coq kernel; translator/print_tables.py (shape of hy-repr's body, fail-closed on any statement that "
                  "touches _seen/_quoting); the step semantics of Print/ReprState.v, compared with the implementation on "
                  "every scripted history; objects are not mutated by printers in the model.",
}

TRUSTED = [
    "Coq 8.16.1 kernel (coqc, full .vo); vm_compute for the correspondence runs",
    "axioms: none (Print Assumptions: Closed under the global context for every C28 theorem)",
    "translator/print_tables.py: hy-repr's body -> Gen/PrintTables.v hy_repr_body (sequence of steps, try/finally), regenerated "
    "on every run; any statement touching _seen or _quoting that is not one of the known steps fails closed",
    "Print/ReprState.v: the semantics of the steps (set add/discard, early return, exception propagation through finally) and "
    "of printers as behaviour trees -- hand-written, compared with the real hy.repr on every scripted history: results of "
    "every call, the state (_quoting and membership of every scripted object in _seen) reported from inside every printer "
    "invocation, the state after every call",
    "printers in the model do not mutate the objects being printed; threads are not modelled",
]


# ------------------------------------------------------------------ generators

def gen_script(rng, n_nodes, n_values, depth, may_raise=True):
    out = []
    for _ in range(rng.randrange(0, 4)):
        r = rng.random()
        if r < 0.3:
            out.append(["emit", rng.choice(["a", "b", "(", ")", " ", "'", "..."])])
        elif r < 0.5:
            out.append(["look"])
        elif r < 0.9 and depth > 0:
            catch = rng.random() < 0.4
            if n_values and rng.random() < 0.25:
                a = ["call", ["value", rng.randrange(n_values)], []]
            else:
                a = ["call", ["node", rng.randrange(n_nodes)], gen_script(rng, n_nodes, n_values, depth - 1, may_raise)]
            if catch:
                a = ["try", a[1], a[2], rng.choice(["<unprintable>", "?", ""])]
            out.append(a)
        elif may_raise and r > 0.91:
            out.append(["raise"])
            break
        else:
            out.append(["emit", "x"])
    return out


def gen_valuespec(rng, n_nodes, n_prev, depth):
    r = rng.random()
    if depth <= 0 or r < 0.3:
        k = rng.random()
        if k < 0.2:
            return ["int", rng.randrange(-5, 100)]
        if k < 0.35:
            return ["str", rng.choice(["s", "a'b", "", "x y"])]
        if k < 0.5:
            return ["sym", rng.choice(["a", "foo", "None", "a-b"])] if rng.random() < 0.8 else ["kw", rng.choice(["k", "", "a-b"])]
        if k < 0.76 and n_nodes:
            return ["node", rng.randrange(n_nodes)]
        if k < 0.8:
            return [rng.choice(["bigint", "badmodel"])]
        if n_prev:
            return ["val", rng.randrange(n_prev)]
        return ["int", 7]
    sub = lambda: gen_valuespec(rng, n_nodes, n_prev, depth - 1)
    n = rng.randrange(0, 4)
    if r < 0.75:
        return [rng.choice(["list", "list", "tuple", "deque", "mlist", "expr", "cyclist"]), [sub() for _ in range(n)]]
    return [rng.choice(["dict", "odict", "cycdict"]),
            [[["str", "k%d" % i] if rng.random() < 0.7 else ["int", i], sub()] for i in range(n)]]


def gen_history(rng, pure):
    """pure: only scripted objects (the histories the state machine is compared on)"""
    n_nodes = rng.randrange(1, 5)
    nodes = [rng.choice(["plain", "plain", "model", "boxed"]) for _ in range(n_nodes)]
    values = []
    if not pure:
        for j in range(rng.randrange(1, 4)):
            values.append(gen_valuespec(rng, n_nodes, j, rng.randrange(1, 4)))
    calls = []
    for _ in range(rng.randrange(2, 7)):
        if pure or rng.random() < 0.45:
            calls.append({"target": ["node", rng.randrange(n_nodes)],
                          "script": gen_script(rng, n_nodes, len(values), rng.randrange(0, 4))})
        else:
            defaults = {str(i): gen_script(rng, n_nodes, len(values), rng.randrange(0, 3)) for i in range(n_nodes)
                        if rng.random() < 0.7}
            calls.append({"target": ["value", rng.randrange(len(values))], "script": [], "defaults": defaults})
    return {"nodes": nodes, "values": values, "calls": calls}


def deep_history(depth):
    """a RecursionError in the middle of a print, then prints of objects that were on its stack"""
    return {"nodes": ["plain", "model"],
            "values": [["list", [["int", 1], ["node", 0]]], ["deep", depth], ["list", [["val", 0], ["val", 1]]],
                       ["dict", [[["str", "k"], ["val", 0]]]], ["mlist", [["sym", "a"], ["node", 1]]]],
            "calls": [{"target": ["value", 2], "script": [], "defaults": {}},
                      {"target": ["value", 0], "script": [], "defaults": {}},
                      {"target": ["value", 3], "script": [], "defaults": {"0": [["look"]]}},
                      {"target": ["value", 4], "script": [], "defaults": {"1": [["raise"]]}},
                      {"target": ["value", 4], "script": [], "defaults": {"1": [["look"]]}},
                      {"target": ["node", 1], "script": [["look"], ["call", ["node", 1], []]]}]}


FIXED = [
    # a print fails inside a model because Python's repr of an unregistered model type raises (an Integer beyond the
    # int-to-str limit; an Object subclass with a raising __repr__), at top level and nested; then models are printed
    {"nodes": ["model"], "values": [["expr", [["sym", "f"], ["bigint"]]], ["sym", "a"], ["mlist", [["sym", "b"], ["int", 1]]],
                                    ["bigint"], ["badmodel"], ["list", [["badmodel"], ["sym", "c"]]],
                                    ["list", [["sym", "d"], ["mlist", [["kw", "k"]]]]]],
     "calls": [{"target": ["value", 0], "script": [], "defaults": {}}, {"target": ["value", 1], "script": [], "defaults": {}},
               {"target": ["value", 2], "script": [], "defaults": {}}, {"target": ["value", 3], "script": [], "defaults": {}},
               {"target": ["value", 1], "script": [], "defaults": {}}, {"target": ["value", 4], "script": [], "defaults": {}},
               {"target": ["value", 6], "script": [], "defaults": {}}, {"target": ["value", 5], "script": [], "defaults": {}},
               {"target": ["value", 2], "script": [], "defaults": {}}, {"target": ["node", 0], "script": [["look"]]}]},
    # a printer catches the failure of a nested call (Box -> Expression -> Bad) and carries on: the rest of the same call,
    # and later calls, must be as in a fresh interpreter
    {"nodes": ["plain", "plain", "model"],
     "values": [["expr", [["sym", "f"], ["node", 1]]], ["expr", [["sym", "y"]]], ["list", [["val", 0], ["int", 2]]]],
     "calls": [{"target": ["node", 0],
                "script": [["emit", "(Box "], ["try", ["value", 0], [], "<unprintable>"], ["emit", " "], ["call", ["value", 1], []],
                           ["look"], ["emit", ")"]],
                "defaults": {"1": [["raise"]]}},
               {"target": ["value", 1], "script": [], "defaults": {}},
               {"target": ["value", 2], "script": [], "defaults": {"1": [["emit", "ok"]]}},
               {"target": ["node", 2], "script": [["look"], ["try", ["node", 1], [["call", ["node", 2], []], ["raise"]], "?"], ["look"]]}]},
    # a printer raises two levels down; then the objects that were on the stack are printed
    {"nodes": ["plain", "plain", "model"], "values": [["list", [["node", 0], ["int", 1]]], ["odict", [[["str", "a"], ["val", 0]]]]],
     "calls": [{"target": ["value", 1], "script": [], "defaults": {"0": [["call", ["node", 1], [["raise"]]]]}},
               {"target": ["value", 1], "script": [], "defaults": {}},
               {"target": ["value", 0], "script": [], "defaults": {"0": [["look"]]}},
               {"target": ["node", 2], "script": [["emit", "m"], ["look"]]}]},
    # a model's printer raises: a later model still gets its quote
    {"nodes": ["model", "model"], "values": [["expr", [["sym", "a"], ["node", 0]]]],
     "calls": [{"target": ["value", 0], "script": [], "defaults": {"0": [["raise"]]}},
               {"target": ["value", 0], "script": [], "defaults": {"0": [["emit", "ok"]]}},
               {"target": ["node", 1], "script": [["look"], ["call", ["node", 0], [["look"]]]]}]},
    # re-entrant calls on objects in progress, with differing placeholders
    {"nodes": ["plain", "boxed", "model"], "values": [["cyclist", [["node", 1]]]],
     "calls": [{"target": ["node", 0], "script": [["call", ["node", 1], [["call", ["node", 0], []], ["call", ["node", 1], []],
                                                                         ["call", ["node", 2], [["call", ["node", 2], []], ["look"]]]]]]},
               {"target": ["value", 0], "script": [], "defaults": {"1": [["call", ["value", 0], []], ["look"]]}},
               {"target": ["node", 2], "script": [["look"]]}]},
]


# ------------------------------------------------------------------ Coq terms for pure histories

def coq_script(s):
    out = []
    for a in s:
        if a[0] == "emit":
            out.append("AEmit %s" % pc.ctext(a[1]))
        elif a[0] == "look":
            out.append("ALook")
        elif a[0] == "raise":
            out.append("ARaise")
        elif a[0] == "try":
            out.append("ATry %d%%nat [%s] %s" % (a[1][1], "; ".join(coq_script(a[2])), pc.ctext(a[3])))
        else:
            out.append("ACall %d%%nat [%s]" % (a[1][1], "; ".join(coq_script(a[2]))))
    return out


PLACEHOLDERS = {"plain": None, "boxed": "[boxed]", "model": "<model>"}


def coq_history(h):
    n = len(h["nodes"])
    models = "; ".join("%d%%nat" % i for i, k in enumerate(h["nodes"]) if k == "model")
    phs = "; ".join("(%d%%nat, %s)" % (i, pc.ctext(PLACEHOLDERS[k])) for i, k in enumerate(h["nodes"]) if PLACEHOLDERS[k])
    calls = "; ".join("(%d%%nat, [%s])" % (c["target"][1], "; ".join(coq_script(c["script"]))) for c in h["calls"])
    return "c28_case %d [%s] [%s] [%s]" % (n, models, phs, calls)


def is_pure(h):
    def ok(s):
        return all(a[0] not in ("call", "try") or (a[1][0] == "node" and ok(a[2])) for a in s)
    return all(c["target"][0] == "node" and ok(c["script"]) for c in h["calls"])


def run(chk):
    chk.trusted = TRUSTED
    chk.assumptions = [
        "a fresh interpreter = a process that has imported hy, created the same objects and registered the same printers but "
        "has made no hy.repr call (each call of a history runs alone in a forked child of such a process)",
        "a nested call shares the cycle set of the enclosing call (that is how hy.repr finds self-references); 'no state leaks "
        "from one call into another' is judged between top-level calls and, inside printers, against C28_nested_call_sees",
        "a call that raises is compared by the class of its exception",
    ]
    chk.prove("Props/C28.v", ["Props/C28.vo", "Print/ReprScript.vo"], [print_tables.translate])
    thorough = chk.tier == "thorough"
    hy = pc.hy_mod()
    import sys
    rng = chk.rng
    n_pure = 1500 if thorough else 250
    n_mixed = 2500 if thorough else 350
    chk.rule = ("histories of 2-6 top-level hy.repr calls over 1-4 scripted objects (plain / model / with their own placeholder) "
                "and shared ordinary values (lists, tuples, deques, dicts, OrderedDicts, cyclic lists and dicts, models) that hold "
                "them; a printer script emits text, reports the state it sees, calls hy.repr on any object (also one in progress), "
                "does so inside try/except and carries on after a failure, or raises, nested to depth 3; plus fixed histories incl. a RecursionError on a list nested 4x the recursion "
                "limit; non-trivial = distinct history with a raising or re-entrant printer")
    histories = list(FIXED) + [deep_history(sys.getrecursionlimit() * 4)]
    histories += [gen_history(rng, True) for _ in range(n_pure)]
    histories += [gen_history(rng, False) for _ in range(n_mixed)]
    # ---- the histories proper, in this interpreter
    actual = []
    leaks = 0
    for h in histories:
        rh.reset_state()
        res = rh.run_history(h)
        actual.append(res)
        if res and res[-1][1] != [0, False]:
            leaks += 1
    rh.reset_state()
    # ---- every call alone in a fresh interpreter.  A fork of a pristine process per call is exact but slow here, so it
    # is done for the fixed histories and a sample; every call is also made, in a pristine process, after every plain-data
    # module variable of hy.core.hy_repr (whatever its name) has been put back to its value before any call, and the two
    # must agree where both were done.
    t0 = time.time()
    n_fork = 500 if thorough else 25
    fork_idx = list(range(min(len(histories), n_fork)))
    fresh = [None] * len(histories)
    forked = {}
    for batch in pc.chunked(list(range(len(histories))), 600):
        req = {"fork": [histories[i] for i in batch if i in set(fork_idx)], "reload": [histories[i] for i in batch]}
        code, out, err = vlib.run_impl("from props import repr_history; repr_history.main()", stdin=json.dumps(req), timeout=1500)
        if code != 0:
            chk.obligation("fresh-interpreter runs completed", False, err[-1500:])
            return
        res = json.loads(out)
        for i, r in zip(batch, res["reload"]):
            fresh[i] = r
        for i, r in zip([i for i in batch if i in set(fork_idx)], res["fork"]):
            forked[i] = r
    chk.extra["fresh_runs_s"] = round(time.time() - t0, 1)
    bad = [i for i in forked if [x[0] for x in forked[i]] != [x[0] for x in fresh[i]]]
    chk.obligation("a call made after restoring the module state of hy.core.hy_repr gives what it gives in a forked pristine process (%d histories)"
                   % len(forked), not bad, json.dumps([histories[i] for i in bad[:1]])[:600])
    for i in forked:
        fresh[i] = forked[i]
    # ---- the state machine on the pure histories
    pure_idx = [i for i, h in enumerate(histories) if is_pure(h)]
    saved = list(pc.IMPORTS)
    pc.IMPORTS[:] = ["HyV.Print.Syntax", "HyV.Print.Names", "HyV.Print.ReprState", "HyV.Print.ReprScript", "HyV.Print.TableOracle"]
    outs = []
    try:
        t0 = time.time()
        outs = pc.run_chunks([("table_oracle [] [] [] [] []", [coq_history(histories[i]) for i in ch])
                              for ch in pc.chunked(pure_idx, 60)], "c28")
        chk.extra["model_eval_s"] = round(time.time() - t0, 1)
    except RuntimeError as e:
        # the proof cone did not build (reported above): the comparison with the real code below still runs
        chk.obligation("the state machine could be evaluated on the scripted histories", False, str(e)[-800:])
    finally:
        pc.IMPORTS[:] = saved
    model = {}
    for ch, res in zip(pc.chunked(pure_idx, 60), outs):
        for i, parts in zip(ch, res):
            model[i] = parts
    for i, h in enumerate(histories):
        res, fr = actual[i], fresh[i]
        interesting = "raise" in json.dumps(h) or any(r[0][0] == "ok" and ("..." in r[0][1] or "[boxed]" in r[0][1] or "<model>" in r[0][1])
                                                      for r in res)
        chk.count("calls", len(res))
        chk.count("history:" + ("scripted-only" if i in model else "with-values"))
        chk.count("outcome:raise", sum(1 for r in res if r[0][0] == "raise"))
        chk.case(json.dumps(h, sort_keys=True), nontrivial=interesting,
                 sample={"calls": [c["target"] for c in h["calls"]], "results": [r[0] for r in res][:4]} if i % 97 == 3 else None)
        # the property on the real code
        for j, (r, f) in enumerate(zip(res, fr)):
            if r[0] != f[0]:
                chk.fail("differs-from-fresh-interpreter",
                         {"history": h, "call": j, "state_before_call": actual[i][j - 1][1] if j else [0, False]},
                         r[0], f[0], "python -c 'from props import repr_history as r; print(r.run_history(h))' vs each call alone")
                break
            if r[1] != [0, False]:
                chk.fail("state-left-by-call", {"history": h, "call": j}, {"_seen": r[1][0], "_quoting": r[1][1]},
                         {"_seen": 0, "_quoting": False}, "hy.core.hy_repr._seen / _quoting after the top-level call")
                break
        # the state machine
        if i in model:
            want = []
            for r in res:
                want.append("T" + r[0][1] if r[0][0] == "ok" else "R")
            n = len(h["nodes"])
            want.append("<q0 s%s>" % ("0" * n))
            if model[i] != want:
                chk.disagree("ReprState.run_history vs hy.repr on a scripted history (results, states seen by printers, final state)",
                             h, model[i], want)
    chk.obligation("every history left hy-repr's state idle", leaks == 0, "%d histories ended with ids in _seen or _quoting set" % leaks)
