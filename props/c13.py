"""C13 -- compiling the same source is deterministic across processes / hash seeds."""
import glob
import json
import os
import re

from lib import vlib
from props import scope_common as sc
from translator import scope_sets

META = {
    "technique": "Coq proof that every set iteration the compiler's source performs is order-irrelevant, sorted (sorting a "
                 "permutation is canonical) or a declared oracle-ordered iteration, over a regenerated list of all set "
                 "uses (fail-closed taint analysis); refutation of the faithful model of visit_OuterVar; differential "
                 "compilation of generated and repository programs in fresh processes under several PYTHONHASHSEEDs",
    "level_text": "Theorems C13_sorting_is_canonical, C13_set_uses_declared (regenerated obligation over all set uses of "
                  "compiler.py/scoping.py/result_macros.py/macros.py), C13_finalize_perm_independent, "
                  "C13_outervar_perm_independent_iff_sorted, C13_scope_machine_perm_independent hold for every permutation "
                  "oracle, scope chain, name list and event sequence; which branch applies to the current source is "
                  "regenerated (outervar_nonlocal_order); C13_outervar_list_refuted is the order dependence of the "
                  "list(<set>) shape (the source before cab9d54). The oracle "
                  "compiles each program under 6 (quick) / 16 (thorough) hash seeds and compares ast.dump and marshal.dumps.",
    "level_note": "Proof covers the set-iteration mechanism only (the one process-dependent input the anchors name); other "
                  "sources of nondeterminism (time, ids, filesystem order) are covered by the differential oracle alone. "
                  "Bytecode differences CPython itself shows for the unparsed Python source under the same seeds are subtracted.",
}

TRUSTED = [
    "Coq 8.16.1 kernel (coqc, full .vo); vm_compute for the regenerated obligation Gen/SetUsesOk.v and the refutation witness",
    "axioms: none (Print Assumptions: Closed under the global context for every C13 theorem)",
    "translator/scope_sets.py: the taint analysis that finds set-typed values and classifies each use (a set handed to "
    "unknown code, returned, stored in a container or formatted counts as an iteration); it is intraprocedural plus "
    "attribute names, so a set reaching an iteration through a call's return value in another module is not seen",
    "hand-written models Scope/OuterVars.v (visit_OuterVar) and Scope/Finalize.v (ScopeGen.finalize), tied by the shape "
    "match of the two conversions (outervar_nonlocal_order, finalize_order) and, for visit_OuterVar, by the C07 "
    "correspondence run",
    "the model's only process-dependent input is set iteration order (perm_ok: a permutation); CPython's str hashing is "
    "the only seed-dependent mechanism assumed",
    "harness: fresh interpreters (PYTHONPATH=repo, PYTHONHASHSEED varied), sha256 of ast.dump(include_attributes) and "
    "marshal.dumps(compile(..)), control compile of ast.unparse output under the same seeds",
]

MATCHER = "c13_outervar_nonlocal_order"


def matcher(rec, params):
    o = rec.get("observed", {})
    return (rec.get("key") == "ast-differs" and o.get("equal_after_sorting_outervar_nonlocal_names") is True
            and o.get("bytecode_equal_after_sorting_outervar_nonlocal_names") is True
            and o.get("outervar_nonlocal_statements_reordered", 0) > 0)


def seeds_for(chk):
    n_rand = 2 if chk.tier == "quick" else 12
    return ["0", "1", "2", "3"] + [str(chk.rng.randrange(4, 2 ** 32 - 1)) for _ in range(n_rand)]


QUICK_FILES = ("let.hy", "nonlocal.hy", "comprehensions.hy", "setx.hy", "setv.hy", "defclass.hy", "try.hy", "with.hy",
               "macros_local.hy", "decorators.hy", "break_continue.hy", "macros.hy", "util.hy", "hy_repr.hy", "pyops.hy")


def repo_files(thorough):
    out = []
    for pat in ("tests/native_tests/*.hy", "hy/core/*.hy", "hy/pyops.hy", "tests/resources/*.hy"):
        for p in sorted(glob.glob(os.path.join(vlib.REPO, pat))):
            if not thorough and (os.path.basename(p) not in QUICK_FILES or "resources" in p):
                continue
            try:
                out.append(("repo:" + os.path.relpath(p, vlib.REPO), open(p, encoding="utf-8").read()))
            except OSError:
                pass
    return out


def corpus_programs():
    out = []
    for p in sorted(glob.glob(os.path.join(vlib.VERIF, "corpus", "C13", "*.hy"))):
        out.append(("corpus:" + os.path.basename(p), open(p, encoding="utf-8").read()))
    return out


def compile_all(programs, seeds, full=False, control=False):
    """programs: list of source; returns {seed: [result per program]}"""
    indexed = sorted(enumerate(programs), key=lambda t: -len(t[1]))  # spread the big ones over the shards
    nshard = max(1, min(max(1, vlib.NPROC // max(1, len(seeds))), len(indexed) // 40 + 1))
    chunks = [indexed[i::nshard] for i in range(nshard)]
    jobs = [({"kind": "c13", "programs": c, "full": full, "control": control}, s) for s in seeds for c in chunks]
    outs = sc.run_workers(jobs, max_workers=vlib.NPROC)
    res = {}
    k = 0
    for s in seeds:
        arr = [None] * len(programs)
        for c in chunks:
            for (i, _), r in zip(c, outs[k]):
                arr[i] = r
            k += 1
        res[s] = arr
    return res


def judge(per_seed, seeds, i):
    """returns None if deterministic, else (key, observed dict)"""
    rs = [per_seed[s][i] for s in seeds]
    asts = {r["ast"] for r in rs}
    codes = {r["code"] for r in rs}
    ctls = {r.get("ctl") for r in rs}
    obs = {"distinct_ast_dumps": len(asts), "distinct_code_objects": len(codes),
           "distinct_control_code_objects": len(ctls),
           "by_seed": {s: {"ast": r["ast"], "code": r["code"], "err": r.get("err")} for s, r in zip(seeds, rs)}}
    if len(asts) > 1:
        obs["equal_after_sorting_outervar_nonlocal_names"] = len({r["nast"] for r in rs}) == 1
        obs["bytecode_equal_after_sorting_outervar_nonlocal_names"] = len({r["ncode"] for r in rs}) == 1
        obs["outervar_nonlocal_statements_reordered"] = max(r.get("sorted_nonlocals", 0) for r in rs)
        return "ast-differs", obs
    if len(codes) > 1:
        if None in ctls:
            return "bytecode-differs-control-needed", obs
        if len(ctls) > 1:
            return "cpython-control-varies", obs
        return "bytecode-differs", obs
    return None


def split_forms(src):
    """top-level forms of a Hy source text (parenthesis matching that knows strings and comments)"""
    forms, depth, start, i, n = [], 0, None, 0, len(src)
    while i < n:
        c = src[i]
        if c == ";" and depth == 0 and start is None:
            while i < n and src[i] != "\n":
                i += 1
            continue
        if c == '"':
            if start is None:
                start = i
            i += 1
            while i < n and src[i] != '"':
                i += 2 if src[i] == "\\" else 1
        elif c in "([{":
            if start is None:
                start = i
            depth += 1
        elif c in ")]}":
            depth -= 1
            if depth == 0 and start is not None:
                forms.append(src[start:i + 1])
                start = None
        elif c.isspace():
            if depth == 0 and start is not None:
                forms.append(src[start:i])
                start = None
        elif start is None:
            start = i
        i += 1
    if start is not None:
        forms.append(src[start:])
    return forms


def shrink(src, differs, budget=40):
    """greedy deletion of top-level forms, then of sub-forms of the remaining ones"""
    forms = split_forms(src)
    used = [0]

    def ok(fs):
        if used[0] >= budget:
            return False
        used[0] += 1
        return differs("\n".join(fs))
    i = 0
    while i < len(forms) and len(forms) > 1:
        cand = forms[:i] + forms[i + 1:]
        if ok(cand):
            forms = cand
        else:
            i += 1
    # one level down: children of each "(head a b c ...)" form
    for k, f in enumerate(list(forms)):
        if not f.startswith("(") or used[0] >= budget:
            continue
        kids = split_forms(f[1:-1])
        j = 1
        while j < len(kids) and len(kids) > 2:
            cand = kids[:j] + kids[j + 1:]
            trial = forms[:k] + ["(" + " ".join(cand) + ")"] + forms[k + 1:]
            if ok(trial):
                kids = cand
                forms = trial
            else:
                j += 1
    return "\n".join(forms)


def describe_diff(src, seeds, hint=None):
    """full dumps under two seeds that disagree -> short unified description"""
    if hint:  # two seeds already known to disagree
        seeds = list(hint)
    per = compile_all([src], seeds, full=True)
    base = per[seeds[0]][0]
    for s in seeds[1:]:
        r = per[s][0]
        if r["ast"] != base["ast"] or r["code"] != base["code"]:
            a, b = base.get("unparse") or base.get("err", ""), r.get("unparse") or r.get("err", "")
            la, lb = a.splitlines(), b.splitlines()
            diff = [(x, y) for x, y in zip(la, lb) if x != y][:6]
            return {"seed_a": seeds[0], "seed_b": s, "differing_python_lines": diff}
    return {}


def run(chk):
    chk.trusted = TRUSTED
    chk.assumptions = [
        "bytecode equality is judged after subtracting what plain CPython varies for ast.unparse of the same tree under "
        "the same seeds (DESIGN section 9, C13)",
        "a Hy/Python compile error counts as an observation: class and message must agree across seeds",
        "hash seeds: 0,1,2,3 plus seeded-random ones (drawn from VERIF_SEED so that a run is reproducible)",
    ]
    chk.matchers[MATCHER] = matcher
    import time
    t0 = time.time()
    phases = chk.extra.setdefault("phase_seconds", {})
    ok = chk.prove("Props/C13.v", ["Props/C13.vo"], [scope_sets.translate])
    sc.coqchk(chk, "HyV.Props.C13")
    phases["proof (incl. waiting for the shared build lock)"] = round(time.time() - t0, 1)
    try:
        attrs, uses = scope_sets.listing(vlib.REPO)
        chk.extra["set_typed_attributes"] = attrs
        chk.extra["set_uses"] = uses
        chk.extra["outervar_nonlocal_order"] = scope_sets.outervar_order(vlib.REPO)
        chk.extra["finalize_order"] = scope_sets.finalize_order(vlib.REPO)
        for u in uses:
            chk.count("set-use:" + u["kind"].split(":")[0])
    except Exception as e:  # the translator obligation already records the failure
        chk.notes.append("set-use listing unavailable: %s" % e)
    if not ok:
        try:  # name the undeclared uses
            okb, _ = vlib.coq_build(["Gen/SetUses.vo"])
            if okb:
                r = vlib.coq_eval(["HyV.Scope.SetDecl", "HyV.Gen.SetUses"], "",
                                  ["filter (fun u => negb (declared u)) set_uses"], tag="c13u")
                chk.obligation("every set use is declared by the model (Gen/SetUsesOk.v)", r[0].strip() == "[]",
                               "undeclared: " + r[0][:1500])
        except Exception as e:
            chk.notes.append("could not list undeclared set uses: %s" % e)
    refuted_now = chk.extra.get("outervar_nonlocal_order") == "OList"
    chk.extra["model_verdict"] = (
        "visit_OuterVar builds Nonlocal.names with list(<set>): C13_outervar_list_refuted applies to the current source "
        "(witness: names a b bound in an enclosing function, g at module level, (nonlocal a b g))" if refuted_now else
        "visit_OuterVar sorts the set: C13_outervar_perm_independent_iff_sorted (first conjunct) applies to the current source")

    thorough = chk.tier == "thorough"
    seeds = seeds_for(chk)
    chk.extra["hash_seeds"] = seeds
    labelled = corpus_programs()
    # model-guided: the Coq witness rendered as Hy (and a wider variant: more names, more orders)
    labelled.append(("witness:coq", sc.outervar_witness_program(["a", "b"], ["g"])))
    labelled.append(("witness:wide", sc.outervar_witness_program(["alpha", "beta", "gamma", "delta"], ["g1"])))
    labelled += repo_files(thorough)
    gen = sc.HyGen(chk.rng)
    for k in range(3000 if thorough else 200):
        labelled.append(("gen:%d" % k, gen.program()))
    try:
        from props import scope_progs
        for lab, src in scope_progs.c13_extra_programs(chk.rng, 3000 if thorough else 300):
            labelled.append((lab, src))
    except ImportError:
        pass
    programs = [s for _, s in labelled]
    chk.rule = ("programs = corpus + the Coq refutation witness rendered as Hy + every .hy file of the repository's test "
                "suite and core + seeded random programs (nested defn/fn/defclass with nonlocal/global over many names, "
                "let, comprehension forms in both strategies with several setx leaks, for/else, try, match, with, import, "
                "macros, f-strings, set/dict displays) + the C06/C07/C04 generators' programs; each compiled in fresh "
                "interpreters under every hash seed; non-trivial = distinct program that compiles under Hy and contains a "
                "nonlocal/global declaration, a setx, a let or a comprehension form")
    t1 = time.time()
    per_seed = compile_all(programs, seeds)
    phases["compile under all seeds"] = round(time.time() - t1, 1)
    n_detail = {True: 0, False: 0}
    seen_src = set()
    for i, (lab, src) in enumerate(labelled):
        r0 = per_seed[seeds[0]][i]
        kind = lab.split(":")[0]
        chk.count("source:" + kind)
        chk.count("hy-compiles" if "err" not in r0 else "hy-error")
        if "err" not in r0 and not r0.get("code_ok", True):
            chk.count("python-compile-error")
        nontrivial = ("err" not in r0 and re.search(r"\((nonlocal|global|setx|let|lfor|sfor|dfor|gfor) ", src) is not None
                      and src not in seen_src)
        seen_src.add(src)
        chk.case(src, nontrivial=nontrivial,
                 sample={"label": lab, "program": src[:400]} if kind in ("witness",) or i % 97 == 5 else None)
        v = judge(per_seed, seeds, i)
        if v is None:
            continue
        if v[0] == "bytecode-differs-control-needed":  # second pass: plain CPython on the unparsed source
            v = judge(compile_all([src], seeds, control=True), seeds, 0)
            if v is None:
                chk.notes.append("bytecode difference of %s did not reproduce in the control pass" % lab)
                chk.fail("bytecode-differs-unstable", {"label": lab, "program": src, "hash_seeds": seeds}, {},
                         "identical marshal.dumps under every PYTHONHASHSEED, reproducibly")
                continue
        key, obs = v
        if key == "cpython-control-varies":
            chk.count("bytecode-varies-but-so-does-plain-CPython")
            continue
        inp = {"label": lab, "program": src, "hash_seeds": seeds}
        pre = matcher({"key": key, "observed": obs}, {})
        if n_detail[pre] < (1 if pre else 3):
            n_detail[pre] += 1
            try:
                if kind == "gen" and not pre:
                    def differs(s2):
                        return judge(compile_all([s2], seeds, control=True), seeds, 0) is not None
                    inp["minimised_program"] = shrink(src, differs, 40 if not thorough else 120)
                hint = None
                if "minimised_program" not in inp:
                    b0 = obs["by_seed"][seeds[0]]
                    other = [s for s in seeds[1:] if obs["by_seed"][s] != b0]
                    hint = [seeds[0], other[0]] if other else None
                obs["example"] = describe_diff(inp.get("minimised_program", src), seeds, hint)
            except Exception as e:
                obs["example"] = "unavailable: %s" % e
        how = ("for s in %s; do PYTHONHASHSEED=$s PYTHONPATH=%s %s -c 'import hy,ast,sys,types; from hy.compiler import "
               "hy_compile; print(ast.unparse(hy_compile(hy.read_many(sys.stdin.read()), types.ModuleType(\"m\"))))' "
               "< program.hy | sha256sum; done" % (" ".join(seeds[:4]), vlib.REPO, vlib.PY))
        chk.fail(key, inp, obs, "identical ast.dump and marshal.dumps under every PYTHONHASHSEED", how)
    chk.extra["programs"] = len(programs)


def replay(path):
    rec = json.load(open(path))
    inp = rec["input"]
    seeds = inp.get("hash_seeds", ["0", "1", "2", "3"])
    src = inp.get("minimised_program") or inp["program"]
    v = judge(compile_all([src], seeds, control=True), seeds, 0)
    print("still differs: %s" % (v[0] if v else "no"))
    if v:
        print(json.dumps(describe_diff(src, seeds), indent=1))
    return 1 if v else 0
