"""The runs of the C05 check (correspondences and oracles); infrastructure is in props/c05.py."""
import ast
import asyncio

from lib import vlib
from props import ops_common as oc
from props import c05 as P


class Batch:
    """collects Gallina expressions; expressions added together have one type and are evaluated as lists of
    GROUP elements per Eval (one printed type per group instead of one per case)"""
    GROUP = 40

    def __init__(self):
        self.exprs, self.res, self.spans = [], None, []

    def add(self, exprs):
        chunks = [exprs[i:i + self.GROUP] for i in range(0, len(exprs), self.GROUP)]
        start = len(self.exprs)
        self.exprs.extend(oc.coq_list(c) for c in chunks)
        return (start, len(self.exprs), len(exprs))

    def run(self):
        self.res = vlib.coq_eval(P.IMPORTS, "Open Scope string_scope.", self.exprs, tag="c05", shard=25)

    def get(self, span):
        out = []
        for r in self.res[span[0]:span[1]]:
            out.extend(oc.coq_parse(r))
        assert len(out) == span[2], (len(out), span)
        return out


def mutate_tokens(rng, toks):
    """a malformed stream: stray delimiters, unparsable elements, reordered sections, repeated markers"""
    t = list(toks)
    for _ in range(rng.randrange(1, 3)):
        r = rng.random()
        pos = rng.randrange(0, len(t) + 1)
        if r < 0.3:
            t.insert(pos, "other")
        elif r < 0.5:
            t.insert(pos, rng.choice(["slash", "star"]))
        elif r < 0.65:
            t.insert(pos, rng.choice([("iter", "q", False), ("map", "w", False)]))
        elif r < 0.85 and len(t) >= 2:
            i, j = rng.randrange(len(t)), rng.randrange(len(t))
            t[i], t[j] = t[j], t[i]
        elif t:
            del t[rng.randrange(len(t))]
    return t


def sig_of_tokens(toks):
    """the signature a token list denotes when the grammar accepts it (else None): used only to label cases"""
    return None


# ------------------------------------------------------------------ phases (collect expressions, then judge)

def parser_phase(chk, hy, impl, batch, sigs, n_mut):
    rng = chk.rng
    cases = []
    for s in sigs:
        cases.append(("valid-structure", s.tokens(lambda: rng.random() < 0.25), 0))
        for _ in range(n_mut):
            cases.append(("mutated", mutate_tokens(rng, s.tokens(lambda: rng.random() < 0.15)), rng.randrange(9)))
    span = batch.add([P.raw_expr("(parse_ll nat %s)" % oc.coq_list([P.tok_coq(t) for t in toks])) for _, toks, _ in cases])
    yield
    for (kind, toks, ok), r in zip(cases, batch.get(span)):
        model = P.canon_raw_model(r)
        real = impl.parse(toks, ok)
        chk.count("parser:" + kind + (":accepted" if real is not None else ":rejected"))
        if model != real:
            chk.disagree("LambdaList.parse_ll vs hy.core.result_macros.lambda_list (parse tree)",
                         [P.tok_coq(t) for t in toks], repr(model), repr(real))


def compile_phase(chk, hy, impl, batch, sigs, results):
    """model compile_ll vs the ast.arguments / syntax error of hy_compile; keeps the real results for later phases"""
    span = batch.add([P.args_expr(s.coq_raw()) for s in sigs])
    yield
    for s, r in zip(sigs, batch.get(span)):
        model = P.canon_args_model(r)
        st = results.get(s.key()) or impl.compile_fn(s.tokens())
        results[s.key()] = st
        if st[0] == "ok":
            real = ("ok", P.canon_arguments(st[1]))
        elif st[0] == "syntax":
            real = ("syntax", ("str", st[1]) if False else st[1])
        else:
            real = st
        chk.count("compile:" + st[0])
        m = model if model[0] == "ok" else ("syntax", model[1])
        if st[0] == "pysyntax":
            # duplicate parameter names etc.: left to Python's compile() by both
            continue
        if m != real:
            chk.disagree("LambdaList.compile_ll vs hy_compile (ast.arguments / syntax error)", s.python(), repr(m), repr(real))


def arguments_coq(a):
    return ("{| posonlyargs := %s; args := %s; defaults := %s; vararg := %s; kwonlyargs := %s; kw_defaults := %s; "
            "kwarg := %s |}" % (
                oc.coq_list([oc.coq_string(x) for x in a["posonlyargs"]]), oc.coq_list([oc.coq_string(x) for x in a["args"]]),
                oc.coq_nat_list(a["defaults"]), oc.coq_option(a["vararg"], oc.coq_string),
                oc.coq_list([oc.coq_string(x) for x in a["kwonlyargs"]]),
                oc.coq_list([oc.coq_option(x) for x in a["kw_defaults"]]), oc.coq_option(a["kwarg"], oc.coq_string)))


def arguments_ast(a):
    c = lambda d: ast.Constant(value=1000 + d)
    return ast.arguments(posonlyargs=[ast.arg(arg=x) for x in a["posonlyargs"]], args=[ast.arg(arg=x) for x in a["args"]],
                         defaults=[c(d) for d in a["defaults"]],
                         vararg=ast.arg(arg=a["vararg"]) if a["vararg"] else None,
                         kwonlyargs=[ast.arg(arg=x) for x in a["kwonlyargs"]],
                         kw_defaults=[None if d is None else c(d) for d in a["kw_defaults"]],
                         kwarg=ast.arg(arg=a["kwarg"]) if a["kwarg"] else None)


def gen_arguments(rng, max_params):
    """a well-formed ast.arguments of ANY shape (also shapes Hy never emits: fewer defaults than the tail etc.)"""
    names = P.NAMES[:]
    rng.shuffle(names)
    n = rng.randrange(0, max_params + 1)
    cuts = sorted(rng.randrange(0, n + 1) for _ in range(2))
    po = [names.pop() for _ in range(cuts[0])]
    ar = [names.pop() for _ in range(cuts[1] - cuts[0])]
    ko = [names.pop() for _ in range(n - cuts[1])]
    nd = rng.randrange(0, len(po) + len(ar) + 1)
    return {"posonlyargs": po, "args": ar, "defaults": list(range(nd)), "vararg": rng.choice([None, "r"]),
            "kwonlyargs": ko, "kw_defaults": [rng.choice([None, 50 + i]) for i in range(len(ko))],
            "kwarg": rng.choice([None, "kw"])}


class ArgSig:
    """adapter so that gen_call works on a raw ast.arguments description"""

    def __init__(self, a):
        self.posonly = [(x, None) for x in a["posonlyargs"]]
        self.args = [(x, None) for x in a["args"]]
        self.kwonly = [(x, None) for x in a["kwonlyargs"]]


def pybind_phase(chk, hy, impl, batch, n_sigs, n_calls, max_params, max_args):
    """Ops/PyBinding.py_bind against CPython itself, on arbitrary well-formed ast.arguments"""
    rng = chk.rng
    cases = []
    for _ in range(n_sigs):
        a = gen_arguments(rng, max_params)
        f = P.function_from_arguments(arguments_ast(a))
        for _ in range(n_calls):
            pos, kw = P.gen_call(rng, ArgSig(a), max_args)
            cases.append((a, f, pos, kw))
    span = batch.add(["(py_bind nat nat %s %s)" % (arguments_coq(a), P.call_coq(pos, kw)) for a, f, pos, kw in cases])
    yield
    for (a, f, pos, kw), r in zip(cases, batch.get(span)):
        model = P.canon_model_bres(r)
        real = P.run_call(f, pos, kw)
        chk.count("py_bind-vs-cpython:" + ("bound" if real != "TypeErr" else "typeerror"))
        if model != real:
            chk.disagree("PyBinding.py_bind vs CPython (function built from the ast.arguments node)",
                         {"arguments": a, "pos": pos, "kw": kw}, repr(model), repr(real))


def binding_phase(chk, hy, impl, batch, sigs, results, n_calls, max_args, exhaustive_calls=False):
    """(1) model: hy_bind_ref vs the rendered Python def; py_bind(compile_ll) vs the real Hy function;
       (2) ORACLE: the real Hy function vs the rendered Python def, same call"""
    rng = chk.rng
    cases = []
    for s in sigs:
        st = results.get(s.key())
        if st is None or st[0] != "ok":
            continue
        try:
            pyf = P.py_function(s.python())
        except SyntaxError:
            continue
        calls = [P.gen_call(rng, s, max_args) for _ in range(n_calls)]
        if exhaustive_calls:
            calls += list(small_calls(s, max_args))
        for pos, kw in calls:
            cases.append((s, st[2], pyf, pos, kw))
    exprs = []
    for s, hf, pyf, pos, kw in cases:
        exprs.append("(hy_bind_ref nat nat %s %s)" % (s.coq_raw(), P.call_coq(pos, kw)))
        exprs.append("(match compile_ll nat %s with inr a => py_bind nat nat a %s | inl _ => BadAST end)"
                     % (s.coq_raw(), P.call_coq(pos, kw)))
    span = batch.add(exprs)
    yield
    res = batch.get(span)
    for i, (s, hf, pyf, pos, kw) in enumerate(cases):
        m_ref = P.canon_model_bres(res[2 * i])
        m_py = P.canon_model_bres(res[2 * i + 1])
        r_hy = P.run_call(hf, pos, kw)
        r_py = P.run_call(pyf, pos, kw)
        desc = {"lambda_list": "[%s]" % " ".join(hy.repr(x).lstrip("'") for x in impl.ll_model(s.tokens())),
                "python_def": "def f(%s)" % s.python(), "positional": pos, "keywords": kw}
        chk.count("binding:" + ("bound" if r_py != "TypeErr" else "typeerror"))
        chk.case((s.key(), tuple(pos), tuple(kw)), nontrivial=bool(s.names()) and (bool(pos) or bool(kw)),
                 sample=dict(desc, result=repr(r_hy)) if i % 997 == 11 else None)
        if m_ref != r_py:
            chk.disagree("LambdaList.hy_bind_ref vs the rendered Python def (CPython)", desc, repr(m_ref), repr(r_py))
        if m_py != r_hy:
            chk.disagree("PyBinding.py_bind (compile_ll ll) vs the real Hy function", desc, repr(m_py), repr(r_hy))
        if r_hy != r_py:
            chk.fail("binding", desc, repr(r_hy), repr(r_py),
                     "hy.eval of (fn %s (dict (locals))) called as f(*%r, **dict(%r)) vs the Python def" % (
                         desc["lambda_list"], pos, kw))


def let_phase(chk, hy, impl, sigs, results, n_calls, max_args):
    """ORACLE only: a fn / defn written inside a `let` that binds the same names as its parameters.  A
    parameter shadows any enclosing binding, so the function must bind exactly like the Python def; the body
    reads every parameter by name (never assigns), which is what routes the reads through Hy's scope analysis"""
    from hy.models import Dict, Expression, Integer, List, String, Symbol
    rng = chk.rng
    for s in sigs:
        st = results.get(s.key())
        names = s.names()
        if st is None or st[0] != "ok" or not names:
            continue
        try:
            body_py = "{%s}" % ", ".join("%r: %s" % (n, n) for n in names)
            env = {}
            exec("def f(%s):\n    return %s\n" % (s.python(), body_py), env)
            pyf = env["f"]
        except SyntaxError:
            continue
        ll = impl.ll_model(s.tokens())
        body = Dict([x for n in names for x in (String(n), Symbol(n))])
        bindings = List([x for i, n in enumerate(names) for x in (Symbol(n), Integer(555000 + i))])
        import re as _re
        for kind in ("fn", "defn", "defn-own-name"):
            kpyf = pyf
            if kind == "fn":
                form = Expression([Symbol("let"), bindings, Expression([Symbol("fn"), ll, body])])
            elif kind == "defn-own-name":
                # the defn's own name is let-bound too and a default mentions it: defaults are evaluated before the
                # function's name is bound, so they see the let variable (as a Python default sees the earlier binding)
                idx = next((i for i, x in enumerate(ll) if isinstance(x, List) and len(x) == 2), None)
                if idx is None:
                    continue
                ll2 = List(list(ll[:idx]) + [List([ll[idx][0], Symbol("let-f")])] + list(ll[idx + 1:]))
                b2 = List([Symbol("let-f"), Integer(777000)] + list(bindings))
                form = Expression([Symbol("let"), b2, Expression([Symbol("defn"), Symbol("let-f"), ll2, body]),
                                   Symbol("let-f")])
                env2 = {}
                exec("def f(%s):\n    return %s\n" % (_re.sub(r"=\d+", "=777000", s.python(), count=1), body_py), env2)
                kpyf = env2["f"]
            else:
                form = Expression([Symbol("let"), bindings, Expression([Symbol("defn"), Symbol("let-f"), ll, body]),
                                   Symbol("let-f")])
            try:
                hf = hy.eval(form, module=impl.mod)
            except Exception as e:
                chk.fail("let-enclosed-definition", {"form": hy.repr(form)}, "%s: %s" % (type(e).__name__, str(e)[:200]),
                         "compiles like the bare definition", "hy.eval of the form")
                continue
            for _ in range(n_calls):
                pos, kw = P.gen_call(rng, s, max_args)
                def safe(fn_):
                    try:
                        return P.run_call(fn_, pos, kw)
                    except Exception as e_:      # a bound value of an unexpected kind (e.g. the function itself)
                        return ("UnexpectedValue", "%s: %s" % (type(e_).__name__, str(e_)[:80]))
                r_hy, r_py = safe(hf), safe(kpyf)
                chk.count("let-enclosed:" + ("bound" if r_py != "TypeErr" else "typeerror"))
                chk.count("let-enclosed:" + kind)
                if s.posonly:
                    chk.count("let-enclosed:positional-only")
                chk.case(("let", kind, s.key(), tuple(pos), tuple(kw)), nontrivial=bool(pos) or bool(kw))
                if r_hy != r_py:
                    chk.fail("let-enclosed-binding",
                             {"form": hy.repr(form), "python_def": "def f(%s)" % s.python(), "positional": pos,
                              "keywords": kw}, repr(r_hy), repr(r_py),
                             "hy.eval of the form, called as f(*%r, **dict(%r)) vs the Python def" % (pos, kw))


def small_calls(s, max_args):
    """every call with up to 2 positionals and every subset (size <= 2) of the by-name parameters + a stranger"""
    import itertools
    names = [n for n, _ in s.args] + [n for n, _ in s.kwonly] + [n for n, _ in (s.posonly or [])][:1] + ["zz"]
    for npos in range(0, 3):
        for k in range(0, 3):
            for combo in itertools.combinations(names, k):
                yield list(range(npos)), [(n, 100 + i) for i, n in enumerate(combo)]


def rejects_phase(chk, hy, impl, batch, sigs, results):
    """the three syntax errors <-> Python rejects the equivalent def (oracle), and the model's py_def_rejects vs CPython"""
    span = batch.add(["(py_def_rejects nat %s)" % s.coq_raw() for s in sigs])
    yield
    for s, r in zip(sigs, batch.get(span)):
        st = results.get(s.key()) or impl.compile_fn(s.tokens())
        dup = len(set(s.names())) != len(s.names())
        try:
            compile("def f(%s): pass" % s.python(), "<py>", "exec")
            py_rejects = False
        except SyntaxError:
            py_rejects = True
        model = r == "true"
        chk.count("rejects:" + ("python-rejects" if py_rejects else "python-accepts"))
        chk.case(("rejects", s.key()), nontrivial=py_rejects)
        if not dup and model != py_rejects:
            chk.disagree("LambdaList.py_def_rejects vs CPython's compile() of the equivalent def", s.python(),
                         repr(model), repr(py_rejects))
        hy_rejects = st[0] in ("syntax", "pysyntax")
        if st[0] == "crash":
            chk.fail("function-creation", {"lambda_list": "[%s]" % " ".join(hy.repr(x).lstrip("'") for x in impl.ll_model(s.tokens())),
                                           "python_def": "def f(%s)" % s.python()}, st[1],
                     "a function, or a Hy syntax error", "hy.eval of (fn [...] 1)")
            continue
        if hy_rejects != py_rejects:
            chk.fail("rejects", {"lambda_list": "[%s]" % " ".join(hy.repr(x).lstrip("'") for x in impl.ll_model(s.tokens())),
                                 "python_def": "def f(%s)" % s.python()},
                     "Hy: " + ("syntax error (%s)" % st[1] if hy_rejects else "accepted"),
                     "Python: " + ("SyntaxError" if py_rejects else "accepted"), "hy.eval of (fn [...] 1)")


# ------------------------------------------------------------------ calls: _compile_collect

def gen_call_form(rng, max_items):
    """argument forms of a call: positionals, :kw value pairs mingled anywhere, #* and #** unpacking"""
    items = []
    n = rng.randrange(0, max_items + 1)
    kws = ["k1", "k2", "k-3", "k4"]
    rng.shuffle(kws)
    v = [0]

    def val():
        v[0] += 1
        return v[0]
    for _ in range(n):
        r = rng.random()
        if r < 0.4:
            items.append(("pos", val()))
        elif r < 0.7 and kws:
            items.append(("kw", kws.pop(), val()))
        elif r < 0.85:
            items.append(("star", [val() for _ in range(rng.randrange(0, 3))]))
        else:
            d = {}
            for _ in range(rng.randrange(0, 3)):
                d["m%d" % val()] = val()
            items.append(("starstar", d))
    return items


def call_form_text(items, malformed=None):
    hy_parts, py_pos, py_kw = [], [], []
    for it in items:
        if it[0] == "pos":
            hy_parts.append(str(it[1]))
            py_pos.append(str(it[1]))
        elif it[0] == "kw":
            hy_parts.append(":%s %d" % (it[1], it[2]))
            py_kw.append("%s=%d" % (it[1].replace("-", "_"), it[2]))
        elif it[0] == "star":
            hy_parts.append("#* [%s]" % " ".join(map(str, it[1])))
            py_pos.append("*[%s]" % ", ".join(map(str, it[1])))
        else:
            hy_parts.append("#** {%s}" % " ".join('"%s" %d' % kv for kv in it[1].items()))
            py_kw.append("**{%s}" % ", ".join('"%s": %d' % kv for kv in it[1].items()))
    return "(g %s)" % " ".join(hy_parts), "g(%s)" % ", ".join(py_pos + py_kw)


def collect_phase(chk, hy, impl, batch, n_forms, max_items):
    from hy.compiler import hy_compile
    from hy.errors import HyLanguageError
    rng = chk.rng
    cases = []
    for _ in range(n_forms):
        items = gen_call_form(rng, max_items)
        tail = None
        r = rng.random()
        if r < 0.08:
            tail = "dangling-keyword"
        elif r < 0.12:
            tail = "empty-keyword"
        elif r < 0.2:
            tail = "keyword-as-value"
        cases.append((items, tail))
    exprs = []
    for items, tail in cases:
        forms = []
        for it in items:
            if it[0] == "pos":
                forms.append("(AOther %d)" % it[1])
            elif it[0] == "kw":
                forms += ["(AKeyword %s)" % oc.coq_string(it[1]), "(AOther %d)" % it[2]]
            elif it[0] == "star":
                forms.append("(AOther %d)" % (5000 + id_of(it[1])))
            else:
                forms.append("(AUnpackMap %d)" % (7000 + id_of(sorted(it[1].items()))))
        if tail == "dangling-keyword":
            forms.append('(AKeyword "z")')
        elif tail == "empty-keyword":
            forms += ['(AKeyword "")', "(AOther 1)"]
        elif tail == "keyword-as-value":
            forms += ['(AKeyword "z")', '(AKeyword "w")']
        exprs.append("(collect nat (fun _ => 9000) (fun s => if String.eqb s \"k-3\" then \"k_3\" else s) %s)"
                     % oc.coq_list(forms))
    span = batch.add(exprs)
    yield
    env = {}
    exec("def g(*a, **k):\n    return (a, list(k.items()))\n", env)
    impl.mod.g = env["g"]
    for (items, tail), r in zip(cases, batch.get(span)):
        hy_src, py_src = call_form_text(items)
        if tail == "dangling-keyword":
            hy_src = hy_src[:-1] + " :z)"
        elif tail == "empty-keyword":
            hy_src = hy_src[:-1] + " : 1)"
        elif tail == "keyword-as-value":
            hy_src = hy_src[:-1] + " :z :w)"
            py_src = py_src[:-1] + (", " if py_src != "g()" else "") + "z=hy.models.Keyword('w'))"
        model = r
        # implementation: the Call node
        try:
            tree = hy_compile(hy.read_many(hy_src), impl.mod, import_stdlib=False)
            call = tree.body[-1].value
            real = ("inr", ("tuple", [canon_call_arg(a) for a in call.args],
                            [canon_call_kw(k) for k in call.keywords]))
        except HyLanguageError as e:
            msg = getattr(e, "msg", str(e))
            real = ("inl", "CNeedsValue" if "needs a value" in msg else "CEmptyKeyword" if "empty keyword" in msg else msg)
        chk.count("collect:" + (tail or "well-formed"))
        if model != real:
            chk.disagree("LambdaList.collect vs _compile_collect (Call.args / Call.keywords)", hy_src, repr(model), repr(real))
        # oracle: a mingled Hy call binds like the equivalent Python call
        if tail in (None, "keyword-as-value"):
            chk.case(("call", hy_src), nontrivial=len(items) >= 2)
            r_hy = outcome(lambda: hy.eval(hy.read(hy_src), module=impl.mod))
            r_py = outcome(lambda: eval(py_src, {"g": env["g"], "hy": hy}))
            if r_hy != r_py:
                chk.fail("call-collect", {"hy_call": hy_src, "python_call": py_src}, repr(r_hy), repr(r_py),
                         "g = lambda *a, **k: (a, list(k.items()))")


_ids = {}


def id_of(x):
    k = repr(x)
    if k not in _ids:
        _ids[k] = len(_ids)
    return _ids[k]


def canon_call_arg(a):
    if isinstance(a, ast.Constant):
        return a.value
    if isinstance(a, ast.Starred):
        return 5000 + id_of([e.value for e in a.value.elts])
    raise ValueError(ast.dump(a))


def canon_call_kw(k):
    if k.arg is None:
        d = k.value
        return ("KwUnpack", 7000 + id_of(sorted((kk.value, vv.value) for kk, vv in zip(d.keys, d.values))))
    v = k.value
    if isinstance(v, ast.Constant):
        return ("KwNamed", ("str", k.arg), v.value)
    return ("KwNamed", ("str", k.arg), 9000)


def outcome(f):
    try:
        return ("value", repr(f()))
    except Exception as e:
        return ("raises", type(e).__name__)


# ------------------------------------------------------------------ bodies: implicit return, docstring

BODY_FORMS = [
    # (source, kind)   kind: 'strlit' = a string literal; anything else is not
    ('"doc one"', "strlit"), ('"two"', "strlit"), ('#[[bracket doc]]', "strlit"),
    ('(do "from do")', "form"), ('(do "inner stmt" 1)', "form"), ("(do)", "form"), ('(do (do "nested do"))', "form"), ('(if True "then" "else")', "form"),
    ('f"fstring {1}"', "form"), ('b"bytes"', "form"), ("1", "form"), ("None", "form"), ("y", "form"),
    ("(setv y 7)", "form"), ("(do (setv y 8) y)", "form"), ('(do (setv y 9) "after stmts")', "form"),
    ("(+ y 1)", "form"), ("(if y (setv z 1) (setv z 2))", "form"), ("(try 1 (except [Exception] 2))", "form"),
    ("[1 2]", "form"), (":kw", "form"), ('(mac-str)', "form"), ("(import os)", "form"), ("(when y 5)", "form"),
]


def classify_expr(e):
    if e is None:
        return "None"
    if isinstance(e, ast.Constant) and isinstance(e.value, str):
        return ("Some", ("EStr", ("str", e.value)))
    if isinstance(e, ast.Name):
        return ("Some", ("EName", id_of(("name", e.id))))
    return ("Some", ("EOtherExpr", id_of(ast.dump(e))))


def classify_stmt(s):
    if isinstance(s, ast.Expr):
        return ("SExpr", classify_expr(s.value)[1])
    if isinstance(s, ast.Return):
        return ("SReturn", classify_expr(s.value)[1])
    if isinstance(s, ast.Pass):
        return "SPass"
    return ("SOther", id_of(ast.dump(s)))


def coq_bexpr(c):
    if c == "None":
        return "None"
    k = c[1]
    if k[0] == "EStr":
        return "(Some (EStr %s))" % oc.coq_string(k[1][1])
    return "(Some (%s %d))" % (k[0], k[1])


def coq_bstmt(c):
    if c == "SPass":
        return "SPass"
    if c[0] in ("SExpr", "SReturn"):
        k = c[1]
        inner = "(EStr %s)" % oc.coq_string(k[1][1]) if k[0] == "EStr" else "(%s %d)" % (k[0], k[1])
        return "(%s %s)" % (c[0], inner)
    return "(SOther %d)" % c[1]


def body_phase(chk, hy, impl, batch, n_bodies, max_forms):
    from hy.compiler import HyASTCompiler, hy_compile
    from hy.errors import HyLanguageError
    rng = chk.rng
    hy.eval(hy.read_many('(defmacro mac-str [] "from macro") (setv y 3)'), module=impl.mod)
    cases = []
    seen = set()
    singles = [[f] for f in BODY_FORMS]
    pairs = [[f, g] for f in BODY_FORMS for g in BODY_FORMS[:6] + BODY_FORMS[8:12]]
    pool = singles + pairs
    rng.shuffle(pool)
    bodies = [[]] + pool[:n_bodies]
    for _ in range(n_bodies // 2):
        bodies.append([rng.choice(BODY_FORMS) for _ in range(rng.randrange(2, max_forms + 1))])
    for body in bodies:
        key = tuple(src for src, _ in body)
        if key in seen:
            continue
        seen.add(key)
        for kind in ("defn", "fn"):
            cases.append((body, kind))
    # what each form compiles to on its own (the model's input), by the real compiler in a function scope
    exprs = []
    infos = []
    for body, kind in cases:
        comp = HyASTCompiler(impl.mod)
        per_form = []
        for src, k in body:
            r = comp.compile(hy.read(src))
            stmts = [classify_stmt(s) for s in r.stmts]
            ex = classify_expr(r.expr)
            per_form.append((k, stmts, ex))
        forms = []
        for (src, k), (_, stmts, ex) in zip(body, per_form):
            if k == "strlit":
                forms.append("(BStrLit %s)" % oc.coq_string(ex[1][1][1]))
            else:
                forms.append("(BForm {| r_stmts := %s; r_expr := %s |})" % (oc.coq_list([coq_bstmt(s) for s in stmts]),
                                                                           coq_bexpr(ex)))
        bl = oc.coq_list(forms)
        exprs.append("(function_body false %s, py_docstring (function_body false %s), doc_rule %s)" % (bl, bl, bl))
        infos.append(per_form)
    span = batch.add(exprs)
    yield
    for (body, kind), per_form, r in zip(cases, infos, batch.get(span)):
        src = " ".join(s for s, _ in body)
        model = r
        _, m_body, m_doc, m_rule = model
        text = "(defn f [] %s)" % src if kind == "defn" else "(setv f (fn [] %s))" % src
        try:
            tree = hy_compile(hy.read_many(text), impl.mod, import_stdlib=False)
        except HyLanguageError as e:
            chk.count("body:syntax-error")
            continue
        node = next(n for n in ast.walk(tree) if isinstance(n, (ast.Lambda, ast.FunctionDef)))
        chk.count("body:" + type(node).__name__)
        if isinstance(node, ast.FunctionDef):
            real_body = [classify_stmt(s) for s in node.body]
            if real_body != m_body:
                chk.disagree("LambdaList.function_body vs the FunctionDef body hy_compile emits", text,
                             repr(m_body), repr(real_body))
        env = {"y": 3}
        exec(compile(tree, "<hy>", "exec"), env)
        f = env["f"]
        doc = f.__doc__
        want = m_rule[1][1] if m_rule != "None" else None
        chk.case(("body", kind, src), nontrivial=len(body) >= 2,
                 sample={"form": text, "__doc__": doc} if len(body) == 2 and doc and chk.evaluations % 7 == 0 else None)
        model_doc = m_doc[1][1] if m_doc != "None" else None
        if isinstance(node, ast.FunctionDef) and model_doc != doc:
            chk.disagree("LambdaList.py_docstring(function_body) vs f.__doc__", text, repr(model_doc), repr(doc))
        if doc != want:
            first = body[0] if body else None
            desc = {"form": text, "first_form": first[0] if first else None}
            if first is not None and first[1] != "strlit" and want is None and isinstance(doc, str):
                # the rule gives no docstring (the first form is not a string literal), yet the first
                # statement the body emits is a bare string constant, which Python takes as the docstring
                desc["class"] = "docstring-from-non-literal-first-form"
            chk.fail("docstring", desc, repr(doc), repr(want), "f.__doc__ after hy.eval of the form")
        # implicit return of the last form: the same body with an explicit (return <last form>)
        if body:
            ref_src = " ".join([x for x, _ in body[:-1]] + ["(return %s)" % body[-1][0]])
            try:
                env2 = {"y": 3}
                exec(compile(hy_compile(hy.read_many("(defn ref [] %s)" % ref_src), impl.mod, import_stdlib=False),
                             "<hy>", "exec"), env2)
                want_val = outcome(lambda: env2["ref"]())
            except HyLanguageError as e:
                want_val = None
            got = outcome(lambda: f())
            if want_val is not None and got != want_val and "<function" not in got[1]:
                chk.fail("implicit-return", {"form": text}, repr(got), repr(want_val),
                         "f() vs the same body ending in an explicit (return ...)")
        else:
            got = outcome(lambda: f())
            if got != ("value", "None"):
                chk.fail("implicit-return", {"form": text}, repr(got), "('value', 'None')", "empty body")


WRAPPERS = [
    ("plain", "{}"),
    ("let", "(let [q 1] {})"),
    ("let-let", "(let [q 1] (let [r q] {}))"),
    ("except-bound", "(try (raise (ValueError \"v\")) (except [e ValueError] {}))"),
    ("try-body", "(try {} (except [e ValueError] 0))"),
    ("try-else", "(try 0 (except [e ValueError] 0) (else {}))"),
    ("try-finally", "(try {} (finally 0))"),
    ("finally-body", "(try 0 (finally {}))"),
    ("if", "(if True {} 0)"),
    ("when", "(when True {})"),
    ("cond", "(cond False 0 True {})"),
    ("with", "(with [cm (nullcontext)] {})"),
    ("do", "(do 0 {})"),
    ("for", "(for [i [0]] {})"),
    ("while", "(do (setv n 1) (while n (setv n 0) {}))"),
    ("setv", "(setv got {})"),
    ("call-arg", "(str {})"),
    ("match-body", "(match 1 1 {})"),
    ("match-capture", "(match 1 x {})"),
]


def async_gen_phase(chk, hy, impl, n_combos=60):
    """generators: a yield anywhere in the function's own body -- inside let, an except clause with a bound name,
    try/else/finally, if, with, do, loops, match ... -- makes it a generator; an ASYNC generator must not implicitly
    return its last form (Python rejects 'return' with a value there), an async non-generator must; in fn and defn"""
    import contextlib
    import inspect
    rng = chk.rng
    impl.mod.nullcontext = contextlib.nullcontext
    shapes = [(name, tmpl) for name, tmpl in WRAPPERS]
    for _ in range(n_combos):
        (n1, t1), (n2, t2) = rng.choice(WRAPPERS[1:]), rng.choice(WRAPPERS[1:])
        shapes.append((n1 + "/" + n2, t1.replace("{}", t2)))
    for wname, tmpl in shapes:
        yield_form = tmpl.replace("{}", "(yield 1)")
        for tail in ("2", ""):           # a last form with a value after the yield / the yield form itself last
            body = (yield_form + " " + tail).strip()
            for is_async in (True, False):
                for kind in ("defn", "fn"):
                    a = ":async " if is_async else ""
                    src = "(defn %sgen [] %s)" % (a, body) if kind == "defn" else "(setv gen (fn %s[] %s))" % (a, body)
                    chk.case(("generator", src), nontrivial=True)
                    chk.count("generator:%s:%s" % ("async" if is_async else "sync", kind))
                    chk.count("generator-nesting:" + wname.split("/")[0])
                    desc = {"form": src, "nesting": wname}
                    try:
                        env = {}
                        hy.eval(hy.read_many(src), locals=env, module=impl.mod)
                        g = env["gen"]
                        if is_async:
                            isgen = inspect.isasyncgenfunction(g)

                            async def drain():
                                return [x async for x in g()]
                            got = ("value", isgen, repr(asyncio.run(drain()))) if isgen else ("value", isgen, "-")
                        else:
                            isgen = inspect.isgeneratorfunction(g)
                            got = ("value", isgen, repr(list(g()))) if isgen else ("value", isgen, "-")
                    except Exception as e:
                        got = ("raises", type(e).__name__ + ": " + str(e)[:90])
                    want = ("value", True, "[1]")
                    if got != want:
                        chk.fail("generator", desc, repr(got), repr(want),
                                 "hy.eval of the form; then inspect.is%sgenfunction(gen) and the values it yields"
                                 % ("async" if is_async else ""))
    # a yield inside a NESTED function does not make the outer one a generator, and an async non-generator
    # does return its last form
    for src, want in (("(defn :async co [] 1 2)", "2"),
                      ("(defn :async co [] (setv g (fn [] (yield 1))) 2)", "2"),
                      ("(defn :async co [] (let [q 1] (setv g (fn [] (yield q)))) 3)", "3"),
                      ("(setv co (fn :async [] (try 1 (except [e ValueError] 0)) 4))", "4")):
        env = {}
        chk.case(("async", src), nontrivial=True)
        chk.count("async-non-generator")
        try:
            hy.eval(hy.read_many(src), locals=env, module=impl.mod)
            got = outcome(lambda: asyncio.run(env["co"]()))
        except Exception as e:
            got = ("raises", type(e).__name__)
        if got != ("value", want):
            chk.fail("implicit-return", {"form": src}, repr(got), repr(("value", want)), "asyncio.run(co())")
    for src, want in (("(defn sf [] (setv g (fn [] (yield 1))) 5)", "5"),):
        env = {}
        chk.case(("sync", src), nontrivial=True)
        hy.eval(hy.read_many(src), locals=env, module=impl.mod)
        got = outcome(lambda: env["sf"]())
        if got != ("value", want):
            chk.fail("implicit-return", {"form": src}, repr(got), repr(("value", want)), "sf()")


# ------------------------------------------------------------------ driver

def run_all(chk, hy, impl, model_ok, thorough):
    rng = chk.rng
    max_params = 6
    sigs, seen = [], set()

    def add(s):
        if s.key() not in seen:
            seen.add(s.key())
            sigs.append(s)
    if thorough:
        for s in P.all_sigs(4):
            add(s)
        for _ in range(1500):
            add(P.gen_sig(rng, max_params))
    else:
        for s in P.all_sigs(2):
            add(s)
        for _ in range(260):
            add(P.gen_sig(rng, max_params))
    chk.rule = ("signatures: every shape up to %d parameters x default masks, plus seeded shapes up to 6 parameters (80%% "
                "repaired to be valid, the rest exercising the three syntax errors); calls: seeded positional counts and "
                "keyword sets biased to the still-unbound parameters, strangers, repeats%s; call forms with mingled "
                "keywords/#*/#**; bodies from a pool of string literals, forms compiling to string constants, statements. "
                "Non-trivial = a signature with parameters called with arguments" % (
                    4 if thorough else 2, ", plus every small call" if thorough else ""))
    results = {}
    batch = Batch()
    phases = []
    if model_ok:
        phases = [parser_phase(chk, hy, impl, batch, sigs if not thorough else sigs[:3000], 3 if not thorough else 2),
                  compile_phase(chk, hy, impl, batch, sigs, results),
                  pybind_phase(chk, hy, impl, batch, 1500 if thorough else 100, 8, 6, 6),
                  binding_phase(chk, hy, impl, batch, sigs, results, 10 if thorough else 6, 6, exhaustive_calls=False),
                  rejects_phase(chk, hy, impl, batch, sigs, results),
                  collect_phase(chk, hy, impl, batch, 3000 if thorough else 300, 6),
                  body_phase(chk, hy, impl, batch, 400 if thorough else 90, 4)]
        try:
            # compile results are needed by later phases when they collect: run compile's real side first
            for s in sigs:
                results[s.key()] = impl.compile_fn(s.tokens())
            for ph in phases:
                next(ph)
            batch.run()
            for ph in phases:
                for _ in ph:
                    pass
        except RuntimeError as e:
            chk.obligation("model evaluates (coq_eval)", False, str(e)[-1500:])
            model_ok = False
    if not model_ok:
        oracle_only(chk, hy, impl, sigs, rng)
    for s_ in sigs:
        if s_.key() not in results:
            results[s_.key()] = impl.compile_fn(s_.tokens())
    let_phase(chk, hy, impl, sigs if thorough else sigs[:400], results, 4 if thorough else 3, 6)
    async_gen_phase(chk, hy, impl, 400 if thorough else 80)


def oracle_only(chk, hy, impl, sigs, rng):
    """the search for a failing input when the proof side is broken: the differential oracles without the model"""
    for s in sigs:
        st = impl.compile_fn(s.tokens())
        try:
            pyf = P.py_function(s.python())
            py_rejects = False
        except SyntaxError:
            pyf, py_rejects = None, True
        hy_rejects = st[0] != "ok"
        if hy_rejects != py_rejects:
            chk.fail("rejects", {"python_def": "def f(%s)" % s.python()}, "Hy: %s" % st[0],
                     "Python: " + ("SyntaxError" if py_rejects else "accepted"))
            continue
        if hy_rejects:
            continue
        for _ in range(8):
            pos, kw = P.gen_call(rng, s, 6)
            r_hy, r_py = P.run_call(st[2], pos, kw), P.run_call(pyf, pos, kw)
            chk.case((s.key(), tuple(pos), tuple(kw)))
            if r_hy != r_py:
                chk.fail("binding", {"python_def": "def f(%s)" % s.python(), "positional": pos, "keywords": kw},
                         repr(r_hy), repr(r_py))
