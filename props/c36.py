"""C36 -- macroexpand-1 expands one step and macroexpand reaches a fixpoint."""
import copy
import sys
import types
import warnings

from lib import vlib
from props import macro_common as mcm
from translator import macro_expand, macro_lookup

META = {
    "technique": "Coq proofs over a model of hy.macros.macroexpand's loop for an arbitrary macro environment (any "
                 "functions from time and argument forms to model / compiler result / exception), with the flags that "
                 "hy.macroexpand and hy.macroexpand-1 pass regenerated from hy/core/util.hy and the loop skeleton "
                 "checked fail-closed; atoms are objects with identity so that in-place position writes are visible; "
                 "model-vs-hy differential run on generated macro chains and an independent step-counting oracle",
    "level_text": "Theorems in coq/Props/C36.v hold for every macro environment, every model and every chain length: "
                  "macroexpand-1 = exactly one application of the macro the head names (else the model unchanged), "
                  "macroexpand returns t' iff t' is reached by successive single expansions and is no longer "
                  "expandable, a macro returning a compiler result keeps the form and the result object is never "
                  "handed out, position attributes an object has are never changed. 'Input never mutated' is proved "
                  "for inputs whose atoms all carry positions and for unpositioned call forms (_partial) and refuted "
                  "in general (_refuted witness = known finding).",
    "level_note": "Trusted: Coq kernel; translator/macro_expand.py + macro_sexp.py; the loop body's order of "
                  "operations is modelled by hand and tied by differential execution; the four position attributes are "
                  "treated as one unit; macro lookup is the C35 chain for a fresh compiler; hy.R one-shot requires and "
                  "_hy_compiler-taking macros are not modelled; non-termination is represented by fuel exhaustion.",
}

TRUSTED = [
    "Coq 8.16.1 kernel (coqc, full .vo); vm_compute for the witness and the example",
    "axioms: none (Print Assumptions: Closed under the global context for every C36 theorem)",
    "translator/macro_expand.py (+ macro_sexp.py, macro_lookup.py): macroexpand's loop skeleton and return rule, "
    "the :result-ok/:once arguments of hy.core.util.macroexpand/-1/_macroexpand (fail-closed, regenerated every run)",
    "hand-written model MacroNS/ExpandModel.v of the loop body, of replace_hy_obj/as_model on atoms vs sequences and of "
    "head-name computation: tied by differential execution against hy.macroexpand / hy.macroexpand-1",
    "the harness: construction of input models with chosen position attributes, rendering of template macros",
]

CORE = [("if", 1, 3), ("quote", 2, 1)]          # name, mid, arity: python-implemented, return compiler results
USER = ["m0", "m1", "m2", "m3", "m4", "m5"]
SYMS = ["a", "b", "bar", "x", "y", "None"]
BASE = 1000


# ------------------------------------------------------------------ templates

ORDER = USER + ["x.y", "foo", "quote", "if"]     # a template of rank i only produces macro heads of rank > i


def head_for(n):
    return ("expr", [("sym", "."), ("sym", "x"), ("sym", "y")]) if n == "x.y" else ("sym", n)


def gen_tmpl(rng, i, arity, depth=0):
    """a template for the macro of rank i in ORDER (termination: heads only name macros of larger rank)"""
    later = ORDER[i + 1:]

    def leaf():
        r = rng.random()
        if arity and r < 0.45:
            return ("arg", rng.randrange(arity))
        if r < 0.6:
            return ("int", rng.randrange(0, 50))
        if r < 0.7:
            return ("str", rng.choice(["s", "hello", ""]))
        return ("sym", rng.choice(SYMS + [n for n in later if n != "x.y"] * 2))
    if depth >= 2 or rng.random() < 0.15:
        return leaf()
    if rng.random() < 0.2:
        return ("list", [gen_tmpl(rng, i, arity, depth + 1) for _ in range(rng.randrange(0, 3))])
    r = rng.random()
    if later and r < 0.6:
        n = rng.choice(later)
        if n == "if":
            return ("expr", [("sym", "if"), ("int", 1), ("int", 2), ("int", 3)])
        if n == "quote":
            return ("expr", [("sym", "quote"), gen_tmpl(rng, i, arity, depth + 1)])
        head = head_for(n)
    elif r < 0.7:
        head = ("expr", [("sym", "bar"), ("int", 1)])
    elif r < 0.75:
        return ("expr", [])
    else:
        head = ("sym", rng.choice(["bar", "a", "b"]))
    return ("expr", [head] + [gen_tmpl(rng, i, arity, depth + 1) for _ in range(rng.randrange(0, 3))])


def tmpl_hy(t):
    k = t[0]
    if k == "arg":
        return "~a%d" % t[1]
    if k == "int":
        return str(t[1])
    if k == "str":
        return '"%s"' % t[1]
    if k == "sym":
        return t[1]
    body = " ".join(tmpl_hy(x) for x in t[1])
    return "(%s)" % body if k == "expr" else "[%s]" % body


def tmpl_coq(t):
    k = t[0]
    if k == "arg":
        return "TArg %d%%nat" % t[1]
    if k == "int":
        return "TInt %d%%N" % t[1]
    if k == "str":
        return "TStr %s" % mcm.coq_name(t[1])
    if k == "sym":
        return "TSym %s" % mcm.coq_name(t[1])
    return "TSeq %s %s" % ("KExpr" if k == "expr" else "KList", mcm.coq_list(["(%s)" % tmpl_coq(x) for x in t[1]], "tmpl"))


class World:
    """one target module with macros + an optional `macros` dictionary"""

    def __init__(self, rng, idx):
        self.idx = idx
        self.defs = {}        # mid -> (arity, body) ; body = ("tmpl", t) | ("raise",)
        self.modns = []       # (name, mid) in definition order
        self.extra = []
        for i, n in enumerate(USER):
            if rng.random() < 0.8:
                self.modns.append((n, 10 + i))
                self.defs[10 + i] = self.body(rng, i)
        if rng.random() < 0.25:
            self.modns.append(("if", 30))
            self.defs[30] = (3, ("tmpl", ("expr", [("sym", "bar"), ("arg", 0), ("arg", 2)])))
        if rng.random() < 0.5:
            k = 40
            for n in rng.sample(USER + ["x.y", "foo", "quote"], rng.randrange(1, 4)):
                i = ORDER.index(n)
                self.extra.append((n, k))
                self.defs[k] = self.body(rng, i)
                k += 1

    def body(self, rng, i):
        ar = rng.randrange(0, 3)
        if rng.random() < 0.08:
            return (ar, ("raise",))
        return (ar, ("tmpl", gen_tmpl(rng, i, ar)))

    def lam(self, mid):
        ar, b = self.defs[mid]
        params = " ".join("a%d" % j for j in range(ar))
        if b[0] == "raise":
            return "[%s] (raise (ValueError \"boom\"))" % params
        return "[%s] `%s" % (params, tmpl_hy(b[1]))

    def install(self, hy):
        self.mname = "hvx_%d" % self.idx
        m = types.ModuleType(self.mname)
        sys.modules[self.mname] = m
        src = "\n".join("(defmacro %s %s)" % (n, self.lam(mid)) for n, mid in self.modns)
        with warnings.catch_warnings():
            warnings.simplefilter("ignore")
            hy.eval(hy.read_many(src), module=m)
            self.extra_dict = {n: hy.eval(hy.read("(fn %s)" % self.lam(mid)), module=m) for n, mid in self.extra} or None
        self.module = m
        self.table = dict(self.modns)

    def remove(self):
        sys.modules.pop(self.mname, None)

    def coq(self):
        p = "w%d" % self.idx
        defs = list(self.defs.items()) + [(mid, (ar, ("result",))) for _, mid, ar in CORE]

        def body(b):
            return "BRaise" if b[0] == "raise" else "BResult" if b[0] == "result" else "(BTemplate (%s))" % tmpl_coq(b[1])
        return ("Definition %s_extra : ns := %s.\nDefinition %s_mod : ns := %s.\nDefinition %s_defs : menv := %s.\n"
                % (p, mcm.coq_ns(self.extra), p, mcm.coq_ns(self.modns), p,
                   mcm.coq_list(["(%d%%N, (%d%%nat, %s))" % (mid, ar, body(b)) for mid, (ar, b) in defs], "(N * (nat * mbody))")))


# ------------------------------------------------------------------ inputs

def gen_input(rng, world, depth=0):
    """tree description: (kind, value, positioned)"""
    def atom():
        r = rng.random()
        if r < 0.5:
            return ["sym", rng.choice(SYMS + USER)]
        if r < 0.8:
            return ["int", rng.randrange(0, 50)]
        return ["str", rng.choice(["s", "t u", ""])]
    if depth >= 3 or (depth > 0 and rng.random() < 0.45) or (depth == 0 and rng.random() < 0.03):
        return atom()
    if depth == 0 and rng.random() < 0.03:
        return ["list", [["sym", rng.choice(USER)], atom()]]
    if depth > 0 and rng.random() < 0.2:
        return ["list", [gen_input(rng, world, depth + 1) for _ in range(rng.randrange(0, 3))]]
    r = rng.random()
    names = [n for n, _ in world.modns] + [n for n, _ in world.extra if "." not in n]
    if r < 0.62 and names:
        n = rng.choice(names)
        mid = dict(world.extra).get(n, dict(world.modns).get(n))
        ar = world.defs[mid][0] if rng.random() < 0.9 else rng.randrange(0, 3)
        head = ["sym", n]
        nargs = ar
    elif r < 0.7:
        head, nargs = ["sym", "if"], 3 if rng.random() < 0.85 else 2
        return ["expr", [head] + [atom() for _ in range(nargs)]]
    elif r < 0.75:
        head, nargs = ["sym", "quote"], 1
    elif r < 0.82:
        head, nargs = ["expr", [["sym", "."], ["sym", "x"], ["sym", "y"]]], rng.randrange(0, 3)
    elif r < 0.86:
        return ["expr", []]
    elif r < 0.9:
        head, nargs = ["expr", [["sym", "m0"], ["int", 1]]], rng.randrange(0, 2)
    else:
        head, nargs = ["sym", rng.choice(SYMS)], rng.randrange(0, 3)
    return ["expr", [head] + [gen_input(rng, world, depth + 1) for _ in range(nargs)]]


def input_text(d):
    k = d[0]
    if k == "sym":
        return d[1]
    if k == "int":
        return str(d[1])
    if k == "str":
        return '"%s"' % d[1]
    body = " ".join(input_text(x) for x in d[1])
    return "(%s)" % body if k == "expr" else "[%s]" % body


POS_ATTRS = ("_start_line", "_start_column", "_end_line", "_end_column")


def build(hy, d, regime, rng_positions, counter):
    """real model objects from a description; regime: 'none' | 'all' | 'mixed' | 'top'"""
    M = hy.models
    k = d[0]
    if k == "sym":
        o = M.Symbol(d[1])
    elif k == "int":
        o = M.Integer(d[1])
    elif k == "str":
        o = M.String(d[1])
    else:
        o = (M.Expression if k == "expr" else M.List)([build(hy, x, regime, rng_positions, counter) for x in d[1]])
    counter[0] += 1
    here = counter[0]
    pos = (regime == "all" or (regime == "mixed" and rng_positions[here % len(rng_positions)])
           or (regime == "top" and here == -1))
    if pos:
        o._start_line, o._start_column, o._end_line, o._end_column = here, 1, here, 2
    return o


def make_input(hy, d, regime, bits):
    if regime == "read":
        return hy.read(input_text(d))
    o = build(hy, d, regime, bits, [0])
    if regime == "top":
        o._start_line, o._start_column, o._end_line, o._end_column = 99, 1, 99, 2
    return o


class Interner:
    def __init__(self):
        self.t = {}

    def pos(self, o):
        have = [hasattr(o, a) for a in POS_ATTRS]
        if not any(have):
            return None
        if not all(have):
            return "partial"
        key = tuple(getattr(o, a) for a in POS_ATTRS)
        return self.t.setdefault(key, len(self.t) + 1)

    def known(self, o):
        have = [hasattr(o, a) for a in POS_ATTRS]
        if not any(have):
            return None
        if not all(have):
            return -2
        return self.t.get(tuple(getattr(o, a) for a in POS_ATTRS), -1)


def enc_o(p):
    return 0 if p is None else p + 1


def extract(hy, o, it, atoms):
    """-> Coq term; records atom objects (label = index + 1) and their positions"""
    M = hy.models
    if isinstance(o, (M.Expression, M.List)):
        p = it.pos(o)
        items = [extract(hy, x, it, atoms) for x in o]
        return "FSeq %s %s %s" % ("KExpr" if isinstance(o, M.Expression) else "KList",
                                  "None" if p is None else "(Some %d%%N)" % p,
                                  mcm.coq_list(["(%s)" % x for x in items], "form"))
    atoms.append((o, it.pos(o)))
    lbl = len(atoms)
    if isinstance(o, M.Symbol):
        a = "ASym %s" % mcm.coq_name(str(o))
    elif isinstance(o, M.Integer):
        a = "AInt %d%%N" % int(o)
    elif isinstance(o, M.String):
        a = "AStr %s" % mcm.coq_name(str(o))
    else:
        raise ValueError(type(o))
    return "FAtom %d%%N (%s)" % (lbl, a)


def encode_real(hy, o, it):
    M = hy.models
    if isinstance(o, (M.Expression, M.List)):
        out = [2, 0 if isinstance(o, M.Expression) else 1, enc_o(it.known(o)), len(o)]
        for x in o:
            out += encode_real(hy, x, it)
        return out
    if isinstance(o, M.Symbol):
        s = str(o)
        return [1, 0, enc_o(it.known(o)), len(s)] + [ord(c) for c in s]
    if isinstance(o, M.Integer):
        return [1, 1, enc_o(it.known(o)), int(o)]
    if isinstance(o, M.String):
        s = str(o)
        return [1, 2, enc_o(it.known(o)), len(s)] + [ord(c) for c in s]
    return [7, 7, 7]


def snapshot(hy, o):
    M = hy.models
    attrs = tuple(getattr(o, a, None) for a in POS_ATTRS)
    if isinstance(o, M.Sequence):
        return (type(o).__name__, attrs, tuple(snapshot(hy, x) for x in o))
    return (type(o).__name__, attrs, str(o) if isinstance(o, str) else repr(o))


def diff_kind(before, after, ancestors=()):
    """classify how a snapshot changed; ancestors = position tuples of the enclosing sequences"""
    if before == after:
        return None
    if before[0] != after[0] or (isinstance(before[2], tuple) != isinstance(after[2], tuple)):
        return "structure"
    if isinstance(before[2], tuple):
        if before[1] != after[1]:
            return "sequence-attributes"
        if len(before[2]) != len(after[2]):
            return "structure"
        anc = ancestors + (before[1],)
        kinds = {diff_kind(b, a, anc) for b, a in zip(before[2], after[2])} - {None}
        return kinds.pop() if len(kinds) == 1 else "several"
    if before[2] != after[2]:
        return "structure"
    if all(x is None for x in before[1]) and after[1] in ancestors:
        return "atom-gained-position"
    return "atom-attributes"


# ------------------------------------------------------------------ the independent oracle

def head_name(hy, o):
    M = hy.models
    if not (isinstance(o, M.Expression) and len(o)):
        return None
    fn = o[0]
    if isinstance(fn, M.Expression) and fn and fn[0] == M.Symbol(".") and all(isinstance(x, M.Symbol) for x in fn):
        return ".".join(hy.mangle(str(x)) for x in fn[1:])
    if isinstance(fn, M.Symbol):
        return hy.mangle(str(fn))
    return None


def resolve(hy, world, o):
    """('user', fn) | ('core-result',) | ('core-hy', fn) | None, by the documented order extra > module > core"""
    import builtins
    n = head_name(hy, o)
    if n is None:
        return None
    for d in (world.extra_dict or {}, world.module._hy_macros):
        if n in d:
            return ("user", d[n])
    if n in builtins._hy_macros:
        f = builtins._hy_macros[n]
        if f.__globals__.get("__name__") == "hy.core.macros":
            return ("core-hy", f)
        return ("core-result",)
    return None


def malformed_core_form(hy, world, o):
    """does compiling this core form raise a Hy syntax error?"""
    from hy.compiler import hy_compile
    try:
        with warnings.catch_warnings():
            warnings.simplefilter("ignore")
            hy_compile(o, world.module)
        return False
    except hy.errors.HySyntaxError:
        return True
    except Exception:
        return False


def expected_step(hy, world, o):
    """-> ('same',) | ('form', model) | ('raise',)"""
    r = resolve(hy, world, o)
    if r is not None and r[0] == "core-result" and malformed_core_form(hy, world, o):
        return ("raise",)      # a core form with the wrong shape: the core macro reports a syntax error
    if r is None or r[0] == "core-result":
        return ("same",)
    try:
        with warnings.catch_warnings():
            warnings.simplefilter("ignore")
            return ("form", hy.as_model(r[1](*[hy.as_model(x) for x in o[1:]])))
    except Exception:
        return ("raise",)


class _Timeout(BaseException):
    pass


def _alarm(signum, frame):
    raise _Timeout()


def call(hy, f, o, world):
    import signal
    old = signal.signal(signal.SIGALRM, _alarm)
    signal.setitimer(signal.ITIMER_REAL, 10)
    try:
        with warnings.catch_warnings():
            warnings.simplefilter("ignore")
            return ("ok", f(o, module=world.module, macros=world.extra_dict))
    except _Timeout:
        return ("timeout", "expansion did not finish in 10 s (outside the property; generator guard)")
    except hy.errors.HyLanguageError as e:
        return ("raise", type(e).__name__)
    except RecursionError:
        return ("raise", "RecursionError")
    except Exception as e:
        return ("error", type(e).__name__ + ": " + str(e)[:100])
    finally:
        signal.setitimer(signal.ITIMER_REAL, 0)
        signal.signal(signal.SIGALRM, old)


def m_atom_gained_position(rec, params):
    i = rec["input"]
    return rec["key"] == "input-mutated" and i.get("mutation") == "atom-gained-position"


CORE_FORMS = [
    ("(when a b)", "(if a (do b) None)", "(if a (do b) None)"),
    ("(cond a b)", "(if a b None)", "(if a b None)"),
    ("(if a b c)", None, None), ("(setv x 1)", None, None), ("(do 1 2)", None, None), ("(fn [x] x)", None, None),
    ("(quote x)", None, None), ("(+ 1 2)", None, None), ("(get a 0)", None, None), ("(lfor x y x)", None, None),
    ("(and a b)", None, None), ("(. a b)", None, None), ("(while a b)", None, None), ("(try 1 (finally 2))", None, None),
    ("(not-a-macro 1)", None, None), ("()", None, None), ("[when a b]", None, None), ("5", None, None), ('"s"', None, None),
    ("(cond a b c d)", "(if a b (if c d None))", "(if a b (if c d None))"),
    ("((when a b) c)", None, None), ("(hy.pyops.+ 1 2)", None, None),
]


STATEFUL_SRC = """
(setv _left 0)
(defmacro poll [x] (global _left) (if (> _left 0) (do (-= _left 1) `(poll ~x)) `(done ~x)))
(defmacro stub [x] (setv (get _hy_macros "stub") (fn [x] `(real ~x))) `(stub ~x))
"""


def stateful_block(chk, hy, k):
    """macros with state: `poll` expands to its own call _left times before it changes; `stub` installs the real
    macro under its own name and re-queues the call.  hy.macroexpand must go on while the head names a macro and
    equal iterating hy.macroexpand-1."""
    def fresh():
        m = types.ModuleType("hvs_%d" % k)
        sys.modules[m.__name__] = m
        with warnings.catch_warnings():
            warnings.simplefilter("ignore")
            hy.eval(hy.read_many(STATEFUL_SRC), module=m)
        return m
    how = "module with: " + STATEFUL_SRC.strip().replace("\n", " ")
    try:
        for left in range(0, 5):
            m = fresh()
            m._left = left
            r = hy.macroexpand(hy.read("(poll 7)"), module=m)
            chk.count("stateful:poll")
            chk.case("stateful-poll-%d-%d" % (k, left), nontrivial=left > 0,
                     sample={"macros": STATEFUL_SRC.strip().split("\n"), "_left": left, "input": "(poll 7)"} if (k, left) == (3, 2) else None)
            if r != hy.read("(done 7)") or m._left != 0:
                chk.fail("stateful-fixpoint", {"macro": "poll", "_left": left, "input": "(poll 7)"},
                         "%s with _left=%r afterwards" % (hy.repr(r), m._left), "'(done 7) with _left=0", how + "; (setv _left %d) (hy.macroexpand '(poll 7))" % left)
            m._left = left
            cur, seq = hy.read("(poll 7)"), []
            for _ in range(left + 1):
                cur = hy.macroexpand_1(cur, module=m)
                seq.append(hy.repr(cur))
            want = ["'(poll 7)"] * left + ["'(done 7)"]
            if seq != want:
                chk.fail("stateful-expand1", {"macro": "poll", "_left": left, "input": "(poll 7)"}, seq, want, how)
        m = fresh()
        r = hy.macroexpand(hy.read("(stub 1)"), module=m)
        chk.count("stateful:stub")
        chk.case("stateful-stub-%d" % k, nontrivial=True)
        if r != hy.read("(real 1)"):
            chk.fail("stateful-fixpoint", {"macro": "stub", "input": "(stub 1)"}, hy.repr(r), "'(real 1)", how + "; (hy.macroexpand '(stub 1))")
        m = fresh()
        a = hy.macroexpand_1(hy.read("(stub 1)"), module=m)
        b = hy.macroexpand_1(a, module=m)
        if [hy.repr(a), hy.repr(b)] != ["'(stub 1)", "'(real 1)"]:
            chk.fail("stateful-expand1", {"macro": "stub", "input": "(stub 1)"}, [hy.repr(a), hy.repr(b)], ["'(stub 1)", "'(real 1)"], how)
    finally:
        sys.modules.pop("hvs_%d" % k, None)


def run(chk):
    chk.trusted = TRUSTED
    chk.assumptions = [
        "'unchanged' and 'one expansion' are judged with model equality (==), which ignores position attributes; "
        "'never mutates the input' is judged on a deep snapshot that includes the four position attributes of every node",
        "the expected single expansion is the macro's own function applied to as_model of the argument forms, then as_model",
        "generated chains terminate by construction (macro i only produces calls of macros j > i); non-terminating "
        "expansions are outside the property",
        "core macros implemented in Python (hy.core.result_macros) are the ones that return compiler results",
    ]
    chk.matchers["input-atom-gains-position"] = m_atom_gained_position
    chk.prove("Props/C36.v", ["Props/C36.vo", "MacroNS/ExpandEncode.vo"], [macro_lookup.translate, macro_expand.translate])
    thorough = chk.tier == "thorough"
    n_inputs = 12000 if thorough else 2000
    per_world = 25
    chk.rule = ("world = module with up to 6 template macros (arity 0-2; quasiquote templates producing calls of later "
                "macros, core forms `if`/`quote`, dotted heads, non-macro heads, lists, atoms; some raising), "
                "optionally a macro named `if` and a `macros` dict of 1-3 entries incl. a dotted name; input = generated "
                "form (macro calls with right/wrong arity, core forms, dotted/expression heads, empty expression, "
                "atoms) built as objects with position attributes on none/all/some/only-the-call nodes or via hy.read; "
                "both hy.macroexpand-1 and hy.macroexpand are run on fresh copies; non-trivial = distinct (world, "
                "input, regime) whose macroexpand differs from the input; plus a fixed list of core forms")
    hy = vlib.use_repo_in_process()
    # -- fixed core forms (oracle only)
    w0 = World(chk.rng, 0)
    w0.modns, w0.extra, w0.defs = [], [], {}
    w0.install(hy)
    for text, e1, efull in CORE_FORMS:
        for f, exp, nm in ((hy.macroexpand_1, e1, "macroexpand-1"), (hy.macroexpand, efull, "macroexpand")):
            o = hy.read(text)
            before = snapshot(hy, o)
            r = call(hy, f, o, w0)
            want = hy.read(exp) if exp else hy.read(text)
            chk.count("core-form")
            chk.case("core:" + nm + text, nontrivial=exp is not None, sample={"form": text, "fn": nm} if text == "(when a b)" else None)
            if r[0] != "ok" or r[1] != want:
                chk.fail("core-form", {"form": text, "fn": nm}, repr(r[1]) if r[0] == "ok" else r, exp or "the form unchanged",
                         "hy.%s(hy.read(%r))" % (nm.replace("-", "_"), text))
            if snapshot(hy, o) != before:
                chk.fail("input-mutated", {"form": text, "fn": nm, "mutation": "core-form"}, "changed", "unchanged", "")
    w0.remove()
    # -- generated worlds
    cases, exprs, world_defs = [], [], {}
    world = None
    for k in range(n_inputs):
        if k % per_world == 0:
            if world:
                world.remove()
            world = World(chk.rng, k // per_world + 1)
            world.install(hy)
            world_defs[world.idx] = world.coq()
        d = gen_input(chk.rng, world)
        regime = chk.rng.choice(["none", "all", "mixed", "top", "read", "top", "mixed"])
        bits = [chk.rng.random() < 0.5 for _ in range(7)]
        it = Interner()
        atoms = []
        probe = make_input(hy, d, regime, bits)
        term = extract(hy, probe, it, atoms)
        if any(p == "partial" for _, p in atoms):
            continue
        heap = mcm.coq_list(["(%d%%N, %d%%N)" % (i + 1, p) for i, (_, p) in enumerate(atoms) if p is not None], "(N * N)")
        labels = mcm.coq_list(["%d%%N" % (i + 1) for i in range(len(atoms))], "N")
        p = "w%d" % world.idx
        # the `macros` argument varies from call to call on the same module: the full dict, None, {}, a part of it
        view = copy.copy(world)
        mk = chk.rng.choice(["full", "full", "full", "none", "empty", "part"]) if world.extra else chk.rng.choice(["none", "empty"])
        if mk == "part" and len(world.extra) >= 2:
            view.extra = chk.rng.sample(world.extra, chk.rng.randrange(1, len(world.extra)))
            view.extra_dict = {n: world.extra_dict[n] for n, _ in view.extra}
            extra_term = mcm.coq_ns(view.extra)
        elif mk in ("none", "empty"):
            view.extra, view.extra_dict = [], (None if mk == "none" else {})
            extra_term = "(@nil (list N * N))"
        else:
            mk = "full"
            extra_term = p + "_extra"
        chk.count("macros-arg:" + mk)
        exprs.append("observe_expand hcore %s %s_mod %s_defs %d%%N (%s) %s %s" % (extra_term, p, p, BASE, term, heap, labels))
        world_full, world = world, view
        obs = []
        for f, nm in ((hy.macroexpand_1, "macroexpand-1"), (hy.macroexpand, "macroexpand")):
            o = make_input(hy, d, regime, bits)
            it2 = Interner()
            at2 = []
            extract(hy, o, it2, at2)
            before = snapshot(hy, o)
            r = call(hy, f, o, world)
            after = snapshot(hy, o)
            if r[0] == "timeout":
                enc = [4]
            elif r[0] == "ok":
                enc = [1] + encode_real(hy, r[1], it2) + [9, len(at2)] + [enc_o(it2.known(a)) for a, _ in at2]
            elif r[0] == "raise":
                enc = [3]
            else:
                enc = [5]
            obs.append((nm, o, r, before, after, enc))
        cases.append((world_text(world) if len(cases) % 25 == 0 else world.idx, input_text(d), regime, [(nm, enc) for nm, _, _, _, _, enc in obs]))
        judge_oracle(chk, hy, world, d, regime, bits, obs)
        world = world_full
        if k % (per_world * 8) == 3:
            stateful_block(chk, hy, k)
    if world:
        world.remove()
    core_ns = mcm.coq_ns([(n, mid) for n, mid, _ in CORE])
    outs = []
    batch = 100 * per_world         # the model side in batches, each with only its own worlds' definitions
    for b in range(0, len(exprs), batch):
        sub = exprs[b:b + batch]
        used = sorted({int(e.split("_mod")[0].split(" w")[-1]) for e in sub})
        dtext = "".join(world_defs[w] for w in used)
        outs += vlib.coq_eval(["HyV.MacroNS.ExpandEncode"],
                              "Import HyV.Base.Text HyV.MacroNS.ExpandSyntax HyV.MacroNS.ExpandModel HyV.MacroNS.LookupModel.\n"
                              "Definition hcore : ns := %s.\n" % core_ns + dtext, sub, tag="c36", shard=120)
    for (wt, text, regime, encs), o, ex in zip(cases, outs, exprs):
        ns = mcm.nums(o)
        m1, rest = split_outcome(ns)
        assert rest[0] == 8
        m2, rest2 = split_outcome(rest[1:])
        for (nm, enc), m in zip(encs, (m1, m2)):
            enc, m = canon_quote(enc), canon_quote(m)
            if enc != m:
                chk.disagree("ExpandModel.hy_%s vs hy.%s" % (nm.replace("-", "_"), nm),
                             {"world": wt, "input": text, "positions": regime, "model_term": ex[:600]}, m, enc)


QUOTE = [1, 0, None, 5] + [ord(c) for c in "quote"]


def canon_quote(e):
    """an outcome that stopped at a (quote ...) form: the core macro `quote` was run on it and (on the real side
    only) wrote positions into atoms; positions are not compared for such outcomes"""
    if len(e) > 14 and e[0] == 1 and e[1] == 2 and e[2] == 0 and e[5:7] == [1, 0] and e[8:14] == QUOTE[3:]:
        return ["quote-stopped"] + strip_positions(e)
    return e


def strip_positions(e):
    out, i = [e[0]], 1

    def form(i):
        if e[i] == 1:
            n = 4 if e[i + 1] == 1 else 4 + e[i + 3]
            out.extend(e[i:i + 2] + [0] + e[i + 3:i + n])
            return i + n
        out.extend(e[i:i + 2] + [0, e[i + 3]])
        cnt = e[i + 3]
        i += 4
        for _ in range(cnt):
            i = form(i)
        return i
    form(i)
    return out


def split_outcome(ns):
    """one encoded outcome off the front of ns"""
    if ns[0] in (2, 3, 4):
        return ns[:1], ns[1:]
    i = 1

    def form(i):
        if ns[i] == 1:
            kind = ns[i + 1]
            if kind == 1:
                return i + 4
            return i + 4 + ns[i + 3]
        n = ns[i + 3]
        i += 4
        for _ in range(n):
            i = form(i)
        return i
    j = form(i)
    assert ns[j] == 9
    k = j + 2 + ns[j + 1]
    return ns[:k], ns[k:]


def world_text(world):
    md = world.extra_dict
    return {"macros_argument": "None" if md is None else "{}" if md == {} else "a dict (see macros_arg)",
            "macros": ["(defmacro %s %s)" % (n, world.lam(mid)) for n, mid in world.modns],
            "macros_arg": {n: "(fn %s)" % world.lam(mid) for n, mid in world.extra}}


def judge_oracle(chk, hy, world, d, regime, bits, obs):
    text = input_text(d)
    inp = {"world": world_text(world), "input": text, "positions": regime, "bits": bits}
    how = ("build the input with props/c36.py:make_input(hy, %r, %r, %r) in a module holding the world's macros; "
           "hy.macroexpand_1 / hy.macroexpand(model, module=m, macros=<macros_arg>)" % (d, regime, bits))
    chk.count("positions:" + regime)
    if any(r[0] == "timeout" for _, _, r, _, _, _ in obs):
        chk.count("skipped:non-terminating-expansion")
        return
    for nm, o, r, before, after, enc in obs:
        fresh = make_input(hy, d, regime, bits)
        res = resolve(hy, world, fresh)
        chk.count("head:" + ("not-a-call" if res is None else res[0]))
        # --- input unchanged
        if before != after:
            kind = diff_kind(before, after)
            chk.fail("input-mutated", dict(inp, fn=nm, mutation=kind),
                     "input snapshot changed (%s)" % kind, "unchanged", how)
        if r[0] == "error":
            chk.fail("internal-error", dict(inp, fn=nm), r[1], "a model or a Hy error", how)
            continue
        # --- expected by step counting
        if nm == "macroexpand-1":
            exp = expected_step(hy, world, fresh)
            if exp[0] == "raise":
                if r[0] != "raise":
                    chk.fail("expand1", dict(inp, fn=nm), repr(r[1]), "an exception from the macro", how)
            elif r[0] != "ok":
                chk.fail("expand1", dict(inp, fn=nm), r, "no exception", how)
            elif exp[0] == "same":
                if r[1] != fresh:
                    chk.fail("expand1-unchanged", dict(inp, fn=nm), hy.repr(r[1]), text, how)
            elif r[1] != exp[1]:
                chk.fail("expand1-one-step", dict(inp, fn=nm), hy.repr(r[1]), hy.repr(exp[1]), how)
        else:
            cur, steps, outcome = fresh, 0, None
            while True:
                e = expected_step(hy, world, cur)
                if e[0] == "same":
                    outcome = ("ok", cur)
                    break
                if e[0] == "raise":
                    outcome = ("raise",)
                    break
                cur = e[1]
                steps += 1
                if steps > 40:
                    outcome = None
                    break
            chk.count("chain:%d" % min(steps, 6))
            if outcome is None:
                continue
            if outcome[0] == "raise":
                if r[0] != "raise":
                    chk.fail("expand-fixpoint", dict(inp, fn=nm), repr(r[1]), "an exception from a macro in the chain", how)
            elif r[0] != "ok" or r[1] != outcome[1]:
                chk.fail("expand-fixpoint", dict(inp, fn=nm, steps=steps), hy.repr(r[1]) if r[0] == "ok" else r,
                         hy.repr(outcome[1]), how)
            nontriv = r[0] == "ok" and r[1] != fresh
            chk.case((world.idx, text, regime, tuple(bits)), nontrivial=nontriv,
                     sample={"macros": world_text(world), "input": text, "positions": regime,
                             "macroexpand": hy.repr(r[1]) if r[0] == "ok" else r} if chk.evaluations % 211 == 5 else None)
