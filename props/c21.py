"""C21 -- reader source positions delimit each form's text: the region reads back to an
equal model, children lie within their parent, children are in source order."""
import io
import json
import os

from lib import vlib
from props import reader_common as rc
from translator import reader_tables

META = {
    "technique": "Coq proof over the positioned reader model (fill_pos as an annotation of remaining-input lengths): region "
                 "locality from the extension lemma, containment and order from the suffix lemma, line/column bookkeeping of "
                 "Reader.getc as a function of the consumed prefix; refutation witnesses for #^, synthesized heads and f-string "
                 "parts; position-exact model-vs-implementation differential run; property oracle on hy.read_many",
    "level_text": "Theorems (coq/Props/C21.v), for every text and every oracle record with fill_pos = At, no size bound: "
                  "C21_child_within_parent_and_order (every recorded region lies in the source, every child region within its "
                  "parent's, the items of every sequence strictly in source order -- except the annotate sugar, proved to be the "
                  "only exception -- and the parts of every f-string / children of every replacement field in source order in "
                  "the weak sense: starts and ends never go backwards), C21_positions_invariant (all reader "
                  "modes), C21_getc_invariant and C21_linecol_monotone (Reader.getc's line/column rule, constants regenerated), "
                  "C21_region_locality_partial (a form's positioned model depends only on its own text).  C21_full (the recorded "
                  "region reads back to an equal model) is stated, not proved; it is evaluated on every node of every generated "
                  "program, and the model's positions are compared with the implementation's at every node on every run.",
    "level_note": "Trusted: as C18/C20.  Positions in the model are remaining-input lengths; their translation to "
                  "(line, column) follows Reader.getc and is compared node by node with the implementation.",
}

TRUSTED = [
    "Coq 8.16.1 kernel; axioms: none",
    "translator/reader_tables.py; hand-written model Reader/Model.v tied by position-exact differential execution",
    "harness: slicing the source by (line, column) uses Reader.getc's rule (only LF starts a new line)",
]

SUGAR = ("'", "`", "~", "#*", "#^")


def matcher_synth(rec, params):
    """a child the reader made up (head symbol of a sugar form; the parts, dot and None of a dotted identifier) carries its
    parent's region, which reads back as the parent"""
    i = rec["input"]
    if rec["key"] != "region-reread" or not i.get("same_as_parent") or i.get("parent_kind") != "Seq:Expr":
        return False
    pr = i.get("parent_region", "")
    dotted = "." in pr and not any(c in pr for c in "()[]{}\"';`~ \t\n\r\f\v")
    return pr.startswith(SUGAR) or dotted


def matcher_fpart(rec, params):
    """literal parts and replacement fields of an f-string have no syntax of their own: their regions cannot read back"""
    i = rec["input"]
    return rec["key"] == "region-reread" and bool(i.get("fstring_part"))


def matcher_annotate(rec, params):
    """#^ type target reads as (annotate target type): the children are not in source order"""
    i = rec["input"]
    return rec["key"] == "children-out-of-order" and i.get("parent_region", "").startswith("#^")


def region_of(text, tab_index, pos):
    try:
        k0 = tab_index[(pos[0], pos[1])]
        k1 = tab_index[(pos[2], pos[3])]
    except KeyError:
        return None
    if k0 < 1 or k1 < k0:
        return None
    return text[k0 - 1:k1]


def run(chk):
    chk.trusted = TRUSTED
    chk.matchers["c21_synthesized_child"] = matcher_synth
    chk.matchers["c21_fstring_part"] = matcher_fpart
    chk.matchers["c21_annotate_order"] = matcher_annotate
    chk.assumptions = [
        "'equal model' = same type and value recursively (positions and FComponent.expression aside)",
        "'children in source order' = start positions and end positions of consecutive children do not decrease; children "
        "that carry their parent's region (made up by the reader) have no place of their own and are not ordered",
        "a region is sliced with Reader.getc's own line rule (a new line starts after LF only)",
    ]
    chk.prove("Props/C21.v", ["Props/C21.vo", "Reader/Extract.vo"], [reader_tables.translate])
    thorough = chk.tier == "thorough"
    oracles = rc.Oracles()
    try:
        binary = rc.build_driver()
    except Exception as e:
        chk.obligation("extracted reader model builds", False, str(e))
        binary = None
    impl = rc.Impl()
    hy = impl.hy
    from hy.reader.hy_reader import HyReader
    model = rc.Model(binary, oracles) if binary else None
    rng = chk.rng
    gen = rc.Gen(rng)
    chk.rule = ("every model node (recursively, incl. f-string parts) of every generated multi-line program with all form "
                "kinds, sugar, discards/comments, strings and bracket strings containing LF / CR / CRLF; non-trivial = "
                "distinct (program, node) whose region is shorter than the program")

    def how(t):
        return "PYTHONPATH=%s python -c 'import hy; m = list(hy.read_many(%r)); ...start_line/start_column/end_line/end_column'" % (vlib.REPO, t)

    n_prog = 30000 if thorough else 3200
    # corpus first: reproducers of repaired defects (known_findings.json: fixed entries)
    corpus = []
    cdir = os.path.join(vlib.VERIF, "corpus", "C21")
    for fn in sorted(os.listdir(cdir)) if os.path.isdir(cdir) else []:
        corpus += json.load(open(os.path.join(cdir, fn), encoding="utf-8"))
    for i in range(-len(corpus), n_prog):
        if i < 0:
            text = corpus[i + len(corpus)]
            chk.count("corpus")
        else:
            p = gen.program()
            text, _r = rc.render(p)
        ires = impl.read_many(text)
        if ires[0] != "Ok":
            chk.count("generator-invalid:" + ires[0])
            rc.rejected_program(chk, model, text, ires, oracles)
            continue
        tab = rc.pos_table(text)
        tab_index = {}
        for k, lc in enumerate(tab):
            tab_index.setdefault(lc, k)
        # model vs implementation, positions included
        if model is not None:
            mres = model.read_many(text)
            d = rc.compare(text, mres, ires, oracles, positions=True)
            if d:
                chk.disagree("Reader.Model.read_many (positions) vs hy.read_many", text, d, "Ok")

        def visit(c, parent, idx):
            kind = c[0] + (":" + c[1] if c[0] == "Seq" else "")
            pos = c[3]
            region = region_of(text, tab_index, pos) if None not in pos else None
            info = {"text": text, "node": kind, "pos": pos, "region": region}
            if parent is not None:
                pk = parent[0] + (":" + parent[1] if parent[0] == "Seq" else "")
                info.update(parent_kind=pk, parent_pos=parent[3], same_as_parent=(pos == parent[3]),
                            parent_region=region_of(text, tab_index, parent[3]) if None not in parent[3] else None,
                            fstring_part=(parent[0] == "FStr" or (parent[0] == "FComp" and idx >= 1)))
            chk.count("node:" + c[0])
            chk.case((text, tuple(pos), kind, idx), nontrivial=region is not None and len(region) < len(text),
                     sample={"node": kind, "pos": pos, "region": (region or "")[:40]} if chk.evaluations % 4000 == 11 else None)
            # (a) the region reads back to an equal model
            if region is None:
                chk.fail("no-region", info, pos, "positions inside the source", how(text))
            else:
                rr = impl.read_many(region)
                want = rc.value_only(c)
                got = [rc.value_only(rc.canon_impl(m)) for m in rr[1]] if rr[0] == "Ok" else rr[0]
                if got != [want]:
                    chk.fail("region-reread", info, got, [want], how(text))
            # (b) within the parent
            if parent is not None and None not in pos and None not in parent[3]:
                pp = parent[3]
                if not ((pp[0], pp[1]) <= (pos[0], pos[1]) and (pos[2], pos[3]) <= (pp[2], pp[3])):
                    chk.fail("child-outside-parent", info, pos, "within %r" % (pp,), how(text))
            # (c) children in source order
            kids = c[2]
            for a, b in zip(kids, kids[1:]):
                pa, pb = a[3], b[3]
                if None in pa or None in pb:
                    continue
                if pa == pos or pb == pos:
                    # a child the reader (or FString.__new__, joining a literal part with a debugging text) made up
                    # carries its parent's region: it has no place of its own in the source (C21-synthesized-child /
                    # C21-fstring-part report its region); the order claim is about children with regions of their own
                    chk.count("order:skipped-inherited-region")
                    continue
                if not ((pa[0], pa[1]) <= (pb[0], pb[1]) and (pa[2], pa[3]) <= (pb[2], pb[3])):
                    ci = dict(info)
                    ci.update(parent_region=region, parent_kind=kind, fstring_part=c[0] in ("FStr", "FComp"),
                              children=[pa, pb])
                    chk.fail("children-out-of-order", ci, [pa, pb], "non-decreasing starts and ends", how(text))
            for j, x in enumerate(kids):
                visit(x, c, j)

        for m in ires[1]:
            visit(rc.canon_impl(m), None, 0)
        if i % 3 == 0:
            # files: with skip_shebang=True and a shebang line in front, positions still refer to the whole source
            base_text = text
            text = rng.choice(["#!/usr/bin/env hy\n", "#!\n", "#!x\r\n"]) + base_text
            fres = impl.read_many(text, skip_shebang=True)
            chk.count("file-read")
            if fres[0] != "Ok":
                chk.fail("file-read", {"text": text, "skip_shebang": True}, fres[0], "Ok", how(text))
            else:
                tab = rc.pos_table(text)
                tab_index = {}
                for k, lc in enumerate(tab):
                    tab_index.setdefault(lc, k)
                if model is not None:
                    d = rc.compare(text, model.read_many(text, skip_shebang=True), fres, oracles, positions=True)
                    if d:
                        chk.disagree("Reader.Model.read_many_file (positions) vs hy.read_many(skip_shebang=True)", text, d, "Ok")
                for m in fres[1]:
                    visit(rc.canon_impl(m), None, 0)
            # one reader, the same stream object rewound and read again: the same positions
            text = base_text
            st = io.StringIO(text)
            R = HyReader()
            try:
                first = [rc.canon_impl(m) for m in hy.read_many(st, reader=R)]
                st.seek(0)
                second = [rc.canon_impl(m) for m in hy.read_many(st, reader=R)]
            except Exception as e:  # noqa
                first, second = "first", "raised %s" % type(e).__name__
            chk.count("rewound-stream")
            if first != second or first != [rc.canon_impl(m) for m in ires[1]]:
                chk.fail("rewound-stream-positions", {"text": text}, str(second)[:300], str(first)[:300],
                         "s = io.StringIO(%r); R = hy.HyReader(); list(hy.read_many(s, reader=R)); s.seek(0); list(hy.read_many(s, reader=R))" % text)
    if model:
        model.close()


def setup():
    rc.build_driver()
