"""Shared by the Ops family (C03, C05, C08): a parser for the normal forms Coq
prints, canonical rendering helpers, implementation runners."""
import ast
import re

from lib import vlib

TOKEN = re.compile(r'\s*(?:("(?:[^"]|"")*")|([\[\]();,])|([^\s\[\]();,"]+))')


def coq_parse(s):
    """Parse a printed Gallina normal form into nested Python data:
    application `C a b` -> ("C", a, b); bare `C` -> "C"; numbers -> int;
    strings -> ("str", s); lists -> [..]; tuples (a, b) -> ("tuple", a, b)."""
    toks = []
    pos = 0
    s = s.strip()
    while pos < len(s):
        m = TOKEN.match(s, pos)
        if not m:
            raise ValueError("cannot tokenise coq output at %r" % s[pos:pos + 40])
        pos = m.end()
        if m.group(1) is not None:
            toks.append(("str", m.group(1)[1:-1].replace('""', '"')))
        elif m.group(2) is not None:
            toks.append(m.group(2))
        else:
            toks.append(("atom", m.group(3)))
    i = [0]

    def peek():
        return toks[i[0]] if i[0] < len(toks) else None

    def atom_val(a):
        a = re.sub(r"%\w+$", "", a)
        if re.fullmatch(r"-?\d+", a):
            return int(a)
        return a

    def simple():
        t = peek()
        if t is None:
            raise ValueError("unexpected end")
        i[0] += 1
        if isinstance(t, tuple) and t[0] == "str":
            t2 = peek()
            if isinstance(t2, tuple) and t2[0] == "atom" and t2[1].startswith("%"):
                i[0] += 1
            return t
        if isinstance(t, tuple):
            return atom_val(t[1])
        if t == "(":
            first = app()
            if peek() == ",":
                items = [first]
                while peek() == ",":
                    i[0] += 1
                    items.append(app())
                assert peek() == ")", peek()
                i[0] += 1
                r = ("tuple",) + tuple(items)
            else:
                assert peek() == ")", (peek(), s[:200])
                i[0] += 1
                r = first
            # trailing scope delimiter like (..)%Z is tokenised as atom "%Z"
            t2 = peek()
            if isinstance(t2, tuple) and t2[0] == "atom" and t2[1].startswith("%"):
                i[0] += 1
            return r
        if t == "[":
            items = []
            if peek() == "]":
                i[0] += 1
            else:
                items.append(app())
                while peek() == ";":
                    i[0] += 1
                    items.append(app())
                assert peek() == "]", peek()
                i[0] += 1
            t2 = peek()
            if isinstance(t2, tuple) and t2[0] == "atom" and t2[1].startswith("%"):
                i[0] += 1
            return items
        raise ValueError("unexpected token %r" % (t,))

    def app():
        head = simple()
        args = []
        while True:
            t = peek()
            if t is None or t in (")", "]", ",", ";"):
                break
            if isinstance(t, tuple) and t[0] == "atom" and t[1] in ("-",):
                # negative number printed as `- 1`? not produced by Coq for Z literals
                break
            args.append(simple())
        if args:
            return (head,) + tuple(args)
        return head

    r = app()
    if i[0] != len(toks):
        raise ValueError("trailing tokens in coq output: %r" % (toks[i[0]:i[0] + 5],))
    return r


def coq_string(s):
    return '"' + s.replace('"', '""') + '"'


def coq_list(items):
    return "[" + "; ".join(items) + "]"


def coq_nat_list(ns):
    return "[" + "; ".join(str(n) for n in ns) + "]"


def coq_option(x, f=str):
    return "None" if x is None else "(Some %s)" % f(x)


def coq_z(n):
    return "(%d)%%Z" % n
