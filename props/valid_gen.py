"""Generators of Hy model trees for C10 (and reused by C14/C17): grammar-directed,
mostly well-formed forms over every core head, a mutation (malformed) stream and
a random-argument stream.  All randomness comes from the `random.Random` given."""
import builtins


class G:
    def __init__(self, hy, rng, max_depth=5, compile_time_heads=True):
        self.hy, self.rng, self.max_depth = hy, rng, max_depth
        m = hy.models
        self.m = m
        self.compile_time_heads = compile_time_heads
        self.SYMS = ["a", "b", "c", "x", "y", "f", "g", "a-b", "x?", "*v*", "foo", "None", "True", "False", "...", "_",
                     "*", "/", "&rest", "Ｎone", "if", "math", "int", "str", "ValueError", "Exception", "print", "len"]
        self.KWS = ["a", "k", "a-b", "if", "", "as", "from", "async", "setv", "do", "chain", "tp", "macros", "readers", "lazy",
                    "hy", "warn-on-core-shadow", "else"]
        self.heads = None

    # ---------------------------------------------------------------- atoms
    def S(self, s):
        return self.m.Symbol(s, from_parser=True)

    def K(self, s):
        return self.m.Keyword(s, from_parser=True)

    def E(self, *xs):
        return self.m.Expression(xs)

    def L(self, *xs):
        return self.m.List(xs)

    def dotted(self, *parts):
        return self.E(self.S("."), *[self.S(p) for p in parts])

    def sym(self):
        return self.S(self.rng.choice(self.SYMS))

    def plainsym(self):
        return self.S(self.rng.choice(["a", "b", "c", "x", "y", "f", "g", "a-b", "x?", "foo"]))

    def kw(self):
        return self.K(self.rng.choice(self.KWS))

    def atom(self):
        r, m = self.rng, self.m
        k = r.random()
        if k < 0.30:
            return self.plainsym()
        if k < 0.40:
            return self.sym()
        if k < 0.60:
            return m.Integer(r.choice([0, 1, 2, -1, 7, 10 ** 30]))
        if k < 0.68:
            return m.String(r.choice(["", "s", "a b", "x=1", "é\n", "{}"]))
        if k < 0.72:
            return m.Float(r.choice([0.5, -0.0, 1e308 * 10, float("nan")]))
        if k < 0.75:
            return m.Complex(r.choice([1j, complex(1, -2)]))
        if k < 0.79:
            return m.Bytes(r.choice([b"", b"ab\xff"]))
        if k < 0.87:
            return self.kw()
        if k < 0.90:
            return self.S(r.choice(["None", "True", "False", "..."]))
        if k < 0.95:
            return self.dotted(r.choice(["a", "x", "math"]), r.choice(["b", "pi", "a-b"]))
        return self.E(self.S("."), self.S("None"), self.S("m"))

    # ---------------------------------------------------------------- building blocks
    def forms(self, d, lo, hi):
        return [self.form(d) for _ in range(self.rng.randint(lo, hi))]

    def body(self, d):
        return self.forms(d, 0, 3)

    def form(self, d=0):
        """any form: mostly an expression-valued one"""
        r = self.rng
        if d >= self.max_depth or r.random() < 0.25 + 0.1 * d:
            return self.atom()
        k = r.random()
        if k < 0.25:
            return self.call(d + 1)
        if k < 0.40:
            return self.collection(d + 1)
        return self.headed(d + 1)

    def call(self, d):
        r = self.rng
        fn = r.choice([self.plainsym, self.plainsym, lambda: self.dotted("x", "m"), lambda: self.form(d + 1),
                       lambda: self.E(self.S("."), self.S("None"), self.S("m")), self.kw])()
        args = []
        for _ in range(r.randint(0, 3)):
            k = r.random()
            if k < 0.6:
                args.append(self.form(d))
            elif k < 0.8:
                args += [self.kw(), self.form(d)]
            elif k < 0.9:
                args.append(self.E(self.S("unpack-iterable"), self.form(d)))
            else:
                args.append(self.E(self.S("unpack-mapping"), self.form(d)))
        return self.E(fn, *args)

    def collection(self, d):
        r, m = self.rng, self.m
        k = r.random()
        xs = self.forms(d, 0, 4)
        if r.random() < 0.15:
            xs.append(self.E(self.S(r.choice(["unpack-iterable", "unpack-mapping"])), self.form(d)))
        if k < 0.3:
            return m.List(xs)
        if k < 0.5:
            return m.Tuple(xs)
        if k < 0.65:
            return m.Set(xs)
        if k < 0.9:
            if len(xs) % 2 and r.random() < 0.7:
                xs = xs[:-1]
            return m.Dict(xs)
        parts = []
        for x in xs[:3]:
            if r.random() < 0.5:
                parts.append(m.String("t"))
            else:
                spec = [m.String(">3")] if r.random() < 0.3 else []
                parts.append(m.FComponent([x, *spec], conversion=r.choice([None, "r", "s", "a", "z"])))
        return m.FString(parts)

    def target(self, d):
        r = self.rng
        k = r.random()
        if k < 0.6 or d >= self.max_depth:
            return self.plainsym()
        if k < 0.7:
            return self.dotted("x", "attr")
        if k < 0.8:
            return self.E(self.S("get"), self.plainsym(), self.atom())
        if k < 0.9:
            items = [self.target(d + 1) for _ in range(r.randint(0, 3))]
            if r.random() < 0.3:
                items.append(self.E(self.S("unpack-iterable"), self.plainsym()))
            return (self.m.List if r.random() < 0.6 else self.m.Tuple)(items)
        return self.form(d + 1)

    def ann(self, x, d):
        if self.rng.random() < 0.2:
            return self.E(self.S("annotate"), x, self.form(d + 1))
        return x

    def lambda_list(self, d):
        r = self.rng
        out = []

        def arg():
            a = self.plainsym() if r.random() < 0.7 else self.L(self.plainsym(), self.form(d + 1))
            return self.ann(a, d)
        if r.random() < 0.2:
            out += [arg() for _ in range(r.randint(0, 2))] + [self.S("/")]
        out += [arg() for _ in range(r.randint(0, 3))]
        k = r.random()
        if k < 0.2:
            out.append(self.S("*"))
            out += [arg() for _ in range(r.randint(0, 2))]
        elif k < 0.4:
            out.append(self.ann(self.E(self.S("unpack-iterable"), self.plainsym()), d))
            out += [arg() for _ in range(r.randint(0, 1))]
        if r.random() < 0.2:
            out.append(self.ann(self.E(self.S("unpack-mapping"), self.plainsym()), d))
        return self.L(*out)

    def type_params(self, d):
        r = self.rng
        xs = []
        for _ in range(r.randint(0, 2)):
            k = r.random()
            if k < 0.6:
                xs.append(self.ann(self.plainsym(), d))
            elif k < 0.8:
                xs.append(self.E(self.S("unpack-iterable"), self.plainsym()))
            else:
                xs.append(self.E(self.S("unpack-mapping"), self.plainsym()))
        return [self.K("tp"), self.L(*xs)]

    def loopers(self, d):
        r = self.rng
        out = []
        for _ in range(r.randint(0, 3)):
            k = r.random()
            if k < 0.55:
                out += [self.target(d + 1), self.form(d + 1)]
            elif k < 0.7:
                out += [self.K("if"), self.form(d + 1)]
            elif k < 0.8:
                out += [self.K("do"), self.form(d + 1)]
            elif k < 0.92:
                out += [self.K("setv"), self.target(d + 1), self.form(d + 1)]
            else:
                out += [self.K("async"), self.target(d + 1), self.form(d + 1)]
        return out

    def subpatterns(self, d, lo, hi):
        out = []
        for _ in range(self.rng.randint(lo, hi)):
            out += self.pattern(d)
        return out

    def pattern(self, d):
        """-> list of forms: one pattern, optionally followed by :as name"""
        r, m = self.rng, self.m
        k = r.random()
        if d >= self.max_depth or k < 0.3:
            p = r.choice([self.plainsym, lambda: self.S("_"), lambda: m.Integer(1), lambda: m.String("s"), self.kw,
                          lambda: self.S("None"), lambda: self.dotted("x", "A")])()
        elif k < 0.45:
            items = self.subpatterns(d + 1, 0, 3)
            if r.random() < 0.3:
                items.insert(r.randint(0, len(items)), self.E(self.S("unpack-iterable"), r.choice([self.plainsym(), self.S("_")])))
            p = (m.List if r.random() < 0.6 else m.Tuple)(items)
        elif k < 0.6:
            p = self.E(self.S("|"), *self.subpatterns(d + 1, 0, 3))
        elif k < 0.75:
            kvs = []
            for _ in range(r.randint(0, 2)):
                kvs += [r.choice([m.String("k"), m.Integer(1)]), *self.pattern(d + 1)]
            if r.random() < 0.3:
                kvs.append(self.E(self.S("unpack-mapping"), self.plainsym()))
            p = m.Dict(kvs)
        else:
            head = r.choice([self.plainsym(), self.dotted("x", "C")])
            pos = self.subpatterns(d + 1, 0, 2)
            kws = []
            for _ in range(r.randint(0, 2)):
                kws += [self.kw(), *self.pattern(d + 1)]
            p = self.E(head, *pos, *kws)
        out = [p]
        if r.random() < 0.2:
            out += [self.K("as"), self.plainsym()]
        return out

    # ---------------------------------------------------------------- heads
    def headed(self, d, head=None):
        r = self.rng
        if self.heads is None:
            self.heads = self.all_heads()
        head = head or r.choice(self.heads)
        f = getattr(self, "h_" + self.hy.mangle(head).replace("hyx_", "op_"), None)
        if head in MATHS:
            f = self.h_maths
        elif head in COMPARE:
            f = self.h_compare
        elif head in AUG:
            f = self.h_aug
        if f is None or r.random() < 0.04:
            return self.E(self.S(head), *self.forms(d, 0, 4))
        return self.E(self.S(head), *f(d, head))

    def all_heads(self):
        hy = self.hy
        names = sorted(hy.unmangle(k) for k in getattr(builtins, "_hy_macros", {}))
        if not self.compile_time_heads:
            names = [n for n in names if n not in COMPILE_TIME]
        return names

    def h_maths(self, d, head):
        lo = {"+": 0, "*": 0, "|": 0, "-": 1, "/": 1, "&": 1, "@": 1, "%": 2, "^": 2}.get(head, 2)
        hi = 2 if head in ("%", "^") else 4
        return self.forms(d, lo, hi)

    def h_compare(self, d, head):
        return self.forms(d, 1 if head in ("=", "is", "<", "<=", ">", ">=") else 2, 4)

    def h_aug(self, d, head):
        return [self.target(d), *self.forms(d, 1, 1 if head in ("%=", "^=") else 3)]

    def h_not(self, d, head):
        return [self.form(d)]
    h_bnot = h_await = h_unpack_iterable = h_unpack_mapping = h_quote = h_not

    def h_quasiquote(self, d, head):
        r = self.rng

        def q(dd):
            k = r.random()
            if dd >= self.max_depth or k < 0.3:
                return self.atom()
            if k < 0.5:
                return self.E(self.S("unquote"), self.form(dd + 1))
            if k < 0.6:
                return self.E(self.S("unquote-splice"), self.form(dd + 1))
            if k < 0.65:
                return self.E(self.S("quasiquote"), q(dd + 1))
            xs = [q(dd + 1) for _ in range(r.randint(0, 3))]
            return r.choice([self.m.Expression, self.m.List, self.m.Tuple, self.m.Dict, self.m.Set])(xs)
        return [q(d)]

    def h_and(self, d, head):
        return self.forms(d, 0, 4)
    h_or = h_do = h_and

    def h_if(self, d, head):
        return self.forms(d, 3, 3)

    def h_when(self, d, head):
        return [self.form(d), *self.body(d)]

    def h_cond(self, d, head):
        return self.forms(d, 0, 2) * 2

    def h_chainc(self, d, head):
        out = [self.form(d)]
        for _ in range(self.rng.randint(0, 3)):
            out += [self.S(self.rng.choice(["<", "<=", "=", "in", "is-not", "not-in", "!=", "x"])), self.form(d)]
        return out

    def stmt_valued(self, d):
        """a form whose Result carries temp_variables (compile_assign renames instead of assigning)"""
        r = self.rng
        return r.choice([
            lambda: self.E(self.S("try"), self.atom(), self.E(self.S("except"), self.L(), self.atom())),
            lambda: self.E(self.S("match"), self.plainsym(), self.m.Integer(1), self.atom()),
            lambda: self.E(self.S("defn"), self.plainsym(), self.L(), self.atom()),
            lambda: self.E(self.S("if"), self.plainsym(), self.E(self.S("do"), self.E(self.S("setv"), self.plainsym(), self.atom()), self.atom()), self.atom()),
            lambda: self.E(self.S("and"), self.plainsym(), self.E(self.S("do"), self.E(self.S("setv"), self.plainsym(), self.atom()), self.atom())),
        ])()

    def const_named(self):
        return self.S(self.rng.choice(["None", "True", "False", "\uff2eone"]))

    def h_setv(self, d, head):
        r = self.rng
        if r.random() < 0.08:
            # a constant-named target with a statement-valued right-hand side
            return [self.const_named(), self.stmt_valued(d)]
        out = []
        for _ in range(r.randint(0, 2)):
            k = r.random()
            if k < 0.12:
                out += [self.K("chain"), self.L(*[self.target(d + 1) for _ in range(r.randint(1, 3))]), self.form(d)]
            else:
                out += [self.ann(self.target(d + 1), d), self.form(d)]
        return out

    def h_setx(self, d, head):
        if self.rng.random() < 0.1:
            return [self.const_named(), self.stmt_valued(d)]
        return [self.plainsym(), self.form(d)]

    def h_let(self, d, head):
        b = []
        for _ in range(self.rng.randint(0, 3)):
            b += [self.ann(self.target(d + 1), d), self.form(d + 1)]
        return [self.L(*b), *self.body(d)]

    def h_annotate(self, d, head):
        return [self.target(d), self.form(d)]

    def h_deftype(self, d, head):
        return [*(self.type_params(d) if self.rng.random() < 0.3 else []), self.plainsym(), self.form(d)]

    def h_global(self, d, head):
        return [self.plainsym() for _ in range(self.rng.randint(0, 3))]
    h_nonlocal = h_global

    def h_del(self, d, head):
        return [self.target(d) for _ in range(self.rng.randint(0, 3))]

    def h_get(self, d, head):
        return [self.form(d), *self.forms(d, 1, 3)]

    def h_op_Xfull_stopX(self, d, head):
        r = self.rng
        keys = []
        for _ in range(r.randint(0, 3)):
            k = r.random()
            if k < 0.5:
                keys.append(self.plainsym())
            elif k < 0.75:
                keys.append(self.L(self.form(d + 1)))
            else:
                keys.append(self.call(d + 1))
        return [self.form(d), *keys]

    def h_cut(self, d, head):
        return self.forms(d, 1, 4)

    def h_for(self, d, head):
        r = self.rng
        out = [self.L(*self.loopers(d)), *self.body(d)]
        if r.random() < 0.25:
            out.append(self.E(self.S("else"), *self.body(d)))
        return out

    def h_lfor(self, d, head):
        return [*self.loopers(d), self.form(d)]
    h_sfor = h_gfor = h_lfor

    def h_dfor(self, d, head):
        r = self.rng
        if r.random() < 0.2:
            return [*self.loopers(d), self.E(self.S("unpack-mapping"), self.form(d))]
        return [*self.loopers(d), self.form(d), self.form(d)]

    def h_while(self, d, head):
        out = [self.form(d), *self.body(d)]
        if self.rng.random() < 0.25:
            out.append(self.E(self.S("else"), *self.body(d)))
        return out

    def h_break(self, d, head):
        return []
    h_continue = h_break

    def h_with(self, d, head):
        r = self.rng
        items = []
        if r.random() < 0.25:
            if r.random() < 0.2:
                items.append(self.K("async"))
            items.append(self.form(d + 1))
        else:
            for _ in range(r.randint(1, 3)):
                if r.random() < 0.15:
                    items.append(self.K("async"))
                items += [r.choice([self.S("_"), self.target(d + 1)]), self.form(d + 1)]
        return [self.L(*items), *self.body(d)]

    def h_match(self, d, head):
        r = self.rng
        out = [self.form(d)]
        for _ in range(r.randint(0, 3)):
            out += self.pattern(d + 1)
            if r.random() < 0.2:
                out += [self.K("if"), self.form(d + 1)]
            out.append(self.form(d + 1))
        return out

    def h_raise(self, d, head):
        r = self.rng
        out = []
        if r.random() < 0.8:
            out.append(self.form(d))
        if r.random() < 0.25:
            out += [self.K("from"), self.form(d)]
        return out

    def h_try(self, d, head):
        r = self.rng
        out = self.body(d)
        star = r.random() < 0.15
        for _ in range(r.randint(0, 2)):
            k = r.random()
            spec = self.L() if k < 0.2 else self.L(self.form(d + 1)) if k < 0.5 else \
                self.L(self.plainsym(), self.form(d + 1)) if k < 0.85 else self.L(self.plainsym(), self.L(*self.forms(d + 1, 0, 2)))
            out.append(self.E(self.S("except*" if star else "except"), spec, *self.body(d + 1)))
        if r.random() < 0.3:
            out.append(self.E(self.S("else"), *self.body(d + 1)))
        if r.random() < 0.3:
            out.append(self.E(self.S("finally"), *self.body(d + 1)))
        return out

    def h_fn(self, d, head):
        r = self.rng
        out = []
        if r.random() < 0.1:
            out.append(self.K("async"))
        if r.random() < 0.1:
            out += self.type_params(d)
        out.append(self.ann(self.lambda_list(d), d))
        return out + self.body(d)

    def h_defn(self, d, head):
        r = self.rng
        out = []
        if r.random() < 0.1:
            out.append(self.K("async"))
        if r.random() < 0.15:
            out.append(self.L(*self.forms(d + 1, 0, 2)))
        if r.random() < 0.1:
            out += self.type_params(d)
        out.append(self.ann(self.plainsym(), d))
        out.append(self.lambda_list(d))
        return out + self.body(d)

    def h_defmacro(self, d, head):
        r = self.rng
        ll = [self.plainsym() for _ in range(r.randint(0, 2))]
        if r.random() < 0.2:
            ll.append(self.E(self.S("unpack-iterable"), self.plainsym()))
        return [self.plainsym(), self.L(*ll), *self.body(d)]

    def h_return(self, d, head):
        return self.forms(d, 0, 1)

    def h_yield(self, d, head):
        r = self.rng
        k = r.random()
        if k < 0.3:
            return []
        if k < 0.7:
            return [self.form(d)]
        return [self.K("from"), self.form(d)]

    def h_defclass(self, d, head):
        r = self.rng
        out = []
        if r.random() < 0.15:
            out.append(self.L(*self.forms(d + 1, 0, 2)))
        if r.random() < 0.1:
            out += self.type_params(d)
        out.append(self.plainsym())
        if r.random() < 0.8:
            bases = self.forms(d + 1, 0, 2)
            if r.random() < 0.2:
                bases += [self.kw(), self.form(d + 1)]
            out.append(self.L(*bases))
            if r.random() < 0.2:
                out.append(self.m.String("doc"))
            out += self.body(d)
        return out

    def modname(self):
        r = self.rng
        return r.choice([lambda: self.S("math"), lambda: self.dotted("os", "path"), lambda: self.S("json"),
                         lambda: self.E(self.S("."), self.S("None"), self.S("m")), lambda: self.S("."),
                         lambda: self.S("nosuchmod"), lambda: self.S("hy.core.macros") if False else self.dotted("hy", "core", "macros")])()

    def importlike(self, d):
        r = self.rng
        k = r.random()
        if k < 0.3:
            return []
        if k < 0.45:
            return [self.S("*")]
        if k < 0.65:
            return [self.K("as"), self.plainsym()]
        names = []
        for _ in range(r.randint(0, 3)):
            names.append(r.choice([self.S("pi"), self.S("cond"), self.S("when"), self.plainsym()]))
            if r.random() < 0.3:
                names += [self.K("as"), self.plainsym()]
        return [self.L(*names)]

    def h_import(self, d, head):
        r = self.rng
        out = [self.K("lazy")] if r.random() < 0.05 else []
        for _ in range(r.randint(0, 2)):
            out += [self.modname(), *self.importlike(d)]
        return out

    def h_require(self, d, head):
        r = self.rng
        out = []
        for _ in range(r.randint(0, 2)):
            out.append(self.modname())
            for _ in range(r.randint(0, 2)):
                k = r.random()
                if k < 0.6:
                    out += ([self.K("macros")] if r.random() < 0.3 else []) + (self.importlike(d) or [self.S("*")])
                else:
                    out += [self.K("readers"), r.choice([self.S("*"), self.L(self.plainsym())])]
        return out

    def h_assert(self, d, head):
        return self.forms(d, 1, 2)

    def h_py(self, d, head):
        return [self.m.String(self.rng.choice(["1 + 1", "x", "", "1 +", "x = 1", "(", "lambda: 0", "a if b else c", "yield", "*x", "\n1"]))]

    def h_pys(self, d, head):
        return [self.m.String(self.rng.choice(["x = 1", "", "  y = 2\n  z = 3", " x=1\ny=2", "def f(): pass", "return", "1 +", "import math",
                                               "for i in []: break", "break"]))]

    def h_pragma(self, d, head):
        r = self.rng
        out = []
        for _ in range(r.randint(0, 2)):
            out += [r.choice([self.K("hy"), self.K("warn-on-core-shadow"), self.K("bracketed-templates"), self.kw()]),
                    r.choice([self.m.String("1.0"), self.m.String("99"), self.m.String("x.y"), self.S("True"), self.atom()])]
        return out

    def h_eval_and_compile(self, d, head):
        return self.body(d)
    h_eval_when_compile = h_do_mac = h_eval_and_compile

    def h_export(self, d, head):
        r = self.rng
        out = []
        for _ in range(r.randint(0, 2)):
            out += [r.choice([self.K("objects"), self.K("macros"), self.kw()]), self.L(*[self.plainsym() for _ in range(r.randint(0, 2))])]
        return out

    def h_defreader(self, d, head):
        return [self.plainsym(), *self.body(d)]

    def h_get_macro(self, d, head):
        return [self.rng.choice([self.plainsym(), self.S("cond"), self.K("reader")]), *self.forms(d, 0, 1)]

    def h_local_macros(self, d, head):
        return []

    def h_unquote(self, d, head):
        return self.forms(d, 0, 2)
    h_unquote_splice = h_except = h_op_exceptXasteriskX = h_finally = h_else = h_unquote

    # ---------------------------------------------------------------- malformed stream
    def nodes(self, t, path=()):
        """all (path, node) pairs of sequence nodes"""
        out = []
        if isinstance(t, self.m.Sequence):
            out.append((path, t))
            for i, c in enumerate(t):
                out += self.nodes(c, path + (i,))
        return out

    def rebuild(self, t, path, new_children):
        if not path:
            return self.clone_with(t, new_children)
        i = path[0]
        kids = list(t)
        kids[i] = self.rebuild(kids[i], path[1:], new_children)
        return self.clone_with(t, kids)

    def clone_with(self, t, kids):
        m = self.m
        if isinstance(t, m.FComponent):
            return m.FComponent(kids, conversion=t.conversion)
        if isinstance(t, m.FString):
            return m.FString(kids)
        return type(t)(kids)

    def mutate(self, t):
        r, m = self.rng, self.m
        ns = self.nodes(t)
        if not ns:
            return t
        path, node = r.choice(ns)
        kids = list(node)
        op = r.random()
        if op < 0.25 and kids:
            del kids[r.randrange(len(kids))]
        elif op < 0.40 and kids:
            i = r.randrange(len(kids))
            kids.insert(i, kids[i])
        elif op < 0.60:
            x = r.choice([self.atom, self.kw, lambda: self.E(self.S("unpack-iterable"), self.plainsym()),
                          lambda: self.E(self.S("unpack-mapping"), self.plainsym()), lambda: self.L(), lambda: self.E(),
                          lambda: m.Dict([m.Integer(1)]), lambda: self.form(self.max_depth - 1)])()
            if kids and r.random() < 0.6:
                kids[r.randrange(len(kids))] = x
            else:
                kids.insert(r.randint(0, len(kids)), x)
        elif op < 0.70 and len(kids) >= 2:
            i, j = r.sample(range(len(kids)), 2)
            kids[i], kids[j] = kids[j], kids[i]
        elif op < 0.85 and path and not isinstance(node, (m.FString, m.FComponent)):
            new_t = r.choice([m.List, m.Expression, m.Tuple, m.Dict, m.Set])
            sub = new_t(kids)
            # replace the node itself by one of another container type
            parent_path, i = path[:-1], path[-1]
            parent = t
            for p in parent_path:
                parent = parent[p]
            pk = list(parent)
            pk[i] = sub
            return self.rebuild(t, parent_path, pk)
        else:
            kids = kids[: r.randint(0, len(kids))]
        if isinstance(node, m.FString) and not all(isinstance(k, (m.String, m.FComponent)) for k in kids):
            return t
        if isinstance(node, m.FComponent) and not kids:
            return t
        return self.rebuild(t, path, kids)

    def method_sugar_keywords(self):
        """(.meth :a 1 #** m :k): the method-call sugar without any positional argument; optionally ending in a dangling keyword"""
        r = self.rng
        args = []
        for _ in range(r.randint(1, 3)):
            if r.random() < 0.7:
                args += [self.K(r.choice(["a", "b", "k"])), self.atom()]
            else:
                args.append(self.E(self.S("unpack-mapping"), self.plainsym()))
        if r.random() < 0.6:
            args.append(self.K(r.choice(["a", "k", "z"])))
        t = self.E(self.E(self.S("."), self.S("None"), self.S(r.choice(["m", "foo"]))), *args)
        k = r.random()
        if k < 0.25:
            return self.L(t)
        if k < 0.4:
            return self.E(self.plainsym(), t)
        if k < 0.5:
            return self.m.Dict([self.m.Integer(1), t])
        return t

    def case(self):
        """-> (stream name, tree)"""
        r = self.rng
        k = r.random()
        if k < 0.03:
            return "method-sugar-keywords", self.method_sugar_keywords()
        if k < 0.45:
            return "well-formed-template", self.headed(1)
        if k < 0.75:
            t = self.headed(1)
            for _ in range(r.randint(1, 3)):
                t = self.mutate(t)
            return "mutated", t
        if k < 0.9:
            if self.heads is None:
                self.heads = self.all_heads()
            return "random-arguments", self.E(self.S(r.choice(self.heads)), *self.forms(2, 0, 4))
        return "expression", self.form(0)


MATHS = ["+", "*", "|", "-", "/", "&", "@", "**", "//", "<<", ">>", "%", "^"]
COMPARE = ["=", "is", "<", "<=", ">", ">=", "!=", "is-not", "in", "not-in"]
AUG = [x + "=" for x in MATHS]
COMPILE_TIME = ["eval-and-compile", "eval-when-compile", "do-mac", "defmacro", "require", "pragma", "defreader", "export",
                "get-macro", "local-macros"]
