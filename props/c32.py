"""C32 -- hy.mangle always yields a canonical Python identifier."""
import json
import unicodedata

from lib import vlib
from props import mangle_common as mc
from translator import mangle_tables

META = {
    "technique": "Coq proof over a line-by-line model of mangle(), for every name and every Unicode oracle meeting stated "
                 "hypotheses; regenerated constants; extracted-model differential run on code points in context",
    "level_text": "Theorems C32_canonical / C32_fixes_normal_identifiers / C32_dotted (coq/Props/C32.v) hold for every name, "
                  "with no length or alphabet bound, over a model of mangle() whose constants are regenerated from "
                  "mangling.py and whose algorithm is compared with the real function on every run (quick: ~68k names, "
                  "thorough: every code point in 7 contexts). The Unicode database enters as hypotheses that the run "
                  "validates against the interpreter.",
    "level_note": "Trusted: Coq kernel; unicode_facts hypotheses (validated exhaustively per code point, sampled on "
                  "strings); translator/mangle_tables.py; extraction (ExtrOcamlBasic) + OCaml driver + harness; the "
                  "algorithm of mangle() is modelled by hand (tie = differential execution), not verified.",
}

TRUSTED = [
    "Coq 8.16.1 kernel (coqc, full .vo); vm_compute used for the regenerated-constant obligations; no native_compute",
    "axioms: none (Print Assumptions: Closed under the global context for every C32 theorem)",
    "oracle hypotheses Mangle/Facts.v:unicode_facts about the interpreter's Unicode database (XID classes, character "
    "names, NFKC: closure of identifiers, idempotence, underscore-class prefix, head) -- validated here per code point "
    "exhaustively and on generated strings, not proved",
    "translator/mangle_tables.py (constants of mangling.py regenerated on every run)",
    "hand-written model Mangle/Model.v of mangle()'s algorithm, tied by differential execution: extraction "
    "(ExtrOcamlBasic only) + extract/mangle_driver.ml + this harness",
]


def oracle(chk, s, out, mangle, cls):
    """the property statement evaluated on the real function's output"""
    def bad(key, exp):
        chk.fail(key, {"name": s, "codepoints": [hex(ord(c)) for c in s]}, out, exp,
                 "PYTHONPATH=%s python -c 'import hy; print(ascii(hy.mangle(%r)))'" % (vlib.REPO, s))
    dotted = "." in s and s.strip(".")
    if dotted:
        exp = ".".join(mangle(p) if p else "" for p in s.split("."))
        if out != exp:
            bad("dotted-parts", exp)
        return
    if not out.isidentifier():
        bad("not-identifier", "an identifier")
    if unicodedata.normalize("NFKC", out) != out:
        bad("not-nfkc-normal", unicodedata.normalize("NFKC", out))
    lead_in = len(s) - len(s.lstrip(cls))
    lead_out = len(out) - len(out.lstrip("_"))
    if lead_in != lead_out:
        bad("leading-underscores", "%d leading underscores" % lead_in)
    if s.isidentifier() and unicodedata.normalize("NFKC", s) == s and out != s:
        bad("normal-identifier-changed", s)
    again = mangle(out)
    if again != out:
        bad("not-idempotent", out)


def run(chk):
    chk.trusted = TRUSTED
    chk.assumptions = ["'leading underscores' counts the characters that normalise to '_' (the generated "
                       "normalizes_to_underscore class), which is what Python itself treats as a leading underscore",
                       "names taking the dotted branch are judged by the 'mangles each part separately' clause only"]
    chk.prove("Props/C32.v", ["Props/C32.vo", "Mangle/Extract.vo"], [mangle_tables.translate])
    thorough = chk.tier == "thorough"
    mc.validate_unicode_facts(chk, chk.rng, 200000 if thorough else 20000)
    hy = vlib.use_repo_in_process()
    from hy.reader.mangling import mangle
    cls = mc.us_class()
    try:
        binary = mc.build_driver()
    except Exception as e:
        chk.obligation("extracted model builds", False, str(e))
        binary = None
    names, kinds = [], []
    for kind, s in mc.gen_names(chk, chk.rng, 6000, 20000 if not thorough else 400000, exhaustive=thorough):
        names.append(s)
        kinds.append(kind)
    chk.rule = ("names = each chosen code point (quick: all < U+0300, special ranges and a seeded sample; thorough: all "
                "0x110000) in 7 positional contexts + seeded random mixes of hyphens, underscores, escapes, dots, "
                "delimiters and arbitrary code points; non-trivial = distinct name whose mangling differs from the name")
    outs = []
    for s in names:
        try:
            outs.append(("OK", mangle(s)))
        except Exception as e:  # the property says it returns an identifier: raising is a failure
            outs.append(("ERR", type(e).__name__))
    B = 200000
    for i in range(0, len(names), B):
        chunk = names[i:i + B]
        if binary:
            mres = mc.run_model(binary, "mangle", chunk)
        for j, s in enumerate(chunk):
            o = outs[i + j]
            chk.count("kind:" + kinds[i + j])
            chk.count("dotted" if ("." in s and s.strip(".")) else "plain")
            if o[0] == "OK":
                chk.count("escaped" if "hyx_" in o[1] else "unescaped")
            chk.case(s, nontrivial=(o[0] == "OK" and o[1] != s),
                     sample={"name": s, "mangled": o[1]} if (i + j) % 9973 == 7 else None)
            if binary and mres[j] != o:
                chk.disagree("Mangle.Model.mangle vs hy.reader.mangling.mangle", s, mres[j], o)
            if o[0] == "ERR":
                chk.fail("raises", {"name": s}, o[1], "an identifier", "hy.mangle(%r)" % s)
            else:
                oracle(chk, s, o[1], mangle, cls)
    chk.extra["exhaustive_code_points"] = thorough


def setup():
    mc.build_driver()
