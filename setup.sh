#!/bin/bash
# Build the framework from files on disk only (offline): regenerate coq/Gen from /repo,
# full .vo build of the development, extracted model binaries.
set -e
cd "$(dirname "$0")"
export PYTHONHASHSEED=0 PYTHONPATH="${HYVERIF_REPO:-/repo}:$(pwd)" PYTHONPYCACHEPREFIX="$(pwd)/.pycache"
exec /venv/bin/python - <<'PY'
import glob, importlib, os, sys
sys.path.insert(0, os.getcwd())
from lib import vlib
trs = []
for f in sorted(glob.glob("translator/*.py")):
    name = os.path.basename(f)[:-3]
    if name in ("__init__", "common"):
        continue
    try:
        m = importlib.import_module("translator." + name)
    except BaseException as e:
        print("WARNING: translator", name, "does not import:", repr(e))
        continue
    if hasattr(m, "translate"):
        trs.append(m.translate)
fails = vlib.regen(trs)
for f in fails:
    print("translator failed:", f)
vlib._ensure_makefile()
ok, log = vlib.coq_build(["all"], timeout=3000)
print(log[-3000:])
if not ok:
    print("WARNING: some coq files did not build; each check rebuilds and reports its own cone")
for f in sorted(glob.glob("props/c*.py")):
    try:
        m = importlib.import_module("props." + os.path.basename(f)[:-3])
        if hasattr(m, "setup"):
            m.setup()
    except BaseException as e:
        print("WARNING: setup of", f, "failed:", repr(e))
print("setup ok")
PY
